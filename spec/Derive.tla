------------------------------- MODULE Derive -------------------------------
(* Hyperedge replacement and derivations (C15; used by C04, C17).             *)
(*                                                                            *)
(* A derivation of grammar g (format harness/ag.py) is a flat list of rule    *)
(* instances  d[i] = [rule |-> index into g.rules, parent |-> instance or 0,  *)
(* via |-> index of the rewritten edge in the parent's rule, path |-> <<..>>] *)
(* with d[1] the root (parent 0, path <<>>).  Fresh nodes and edges are named *)
(* canonically:  node j of instance with path p  ==  p \o <<0, j>>            *)
(*               edge k of that instance         ==  p \o <<0, k>>            *)
(*               i-th node of the start edge     ==  <<0, 0, i>>              *)
(* so that order-independence is EQUALITY of the final graphs.                *)
EXTENDS Base

DvRule(g, d, i) == g.rules[d[i].rule]
DvExtPos(r, j) == CHOOSE k \in DOMAIN r.ext : r.ext[k] = j
DvIsExt(r, j) == \E k \in DOMAIN r.ext : r.ext[k] = j
RECURSIVE DvNodeName(_, _, _, _)
DvNodeName(g, d, i, j) ==
  LET r == DvRule(g, d, i) IN
  IF DvIsExt(r, j) THEN
       LET k == DvExtPos(r, j) IN
       IF d[i].parent = 0 THEN <<0, 0, k>>
       ELSE DvNodeName(g, d, d[i].parent, DvRule(g, d, d[i].parent).edges[d[i].via].att[k])
  ELSE d[i].path \o <<0, j>>
DvExpanded(d, i, k) == \E c \in DOMAIN d : d[c].parent = i /\ d[c].via = k
DvLabel(g, name) == [name |-> name, type |-> g.els[name].type, t |-> g.els[name].t]

\* the graph a (possibly partial) derivation derives, with canonical names
DvNodes(g, d) ==
  { [id |-> <<0, 0, k>>, l |-> g.els[g.start].type[k]] : k \in DOMAIN g.els[g.start].type }
  \cup UNION { { [id |-> d[i].path \o <<0, j>>, l |-> DvRule(g, d, i).nodes[j]] :
                   j \in { j \in DOMAIN DvRule(g, d, i).nodes : ~DvIsExt(DvRule(g, d, i), j) } } : i \in DOMAIN d }
DvEdges(g, d) ==
  UNION { { [id |-> d[i].path \o <<0, k>>, lab |-> DvLabel(g, DvRule(g, d, i).edges[k].lab),
             att |-> [m \in DOMAIN DvRule(g, d, i).edges[k].att |->
                        [id |-> DvNodeName(g, d, i, DvRule(g, d, i).edges[k].att[m]),
                         l |-> g.els[DvRule(g, d, i).edges[k].lab].type[m]]]] :
              k \in { k \in DOMAIN DvRule(g, d, i).edges : ~DvExpanded(d, i, k) } } : i \in DOMAIN d }
DvResult(g, d) == [nodes |-> DvNodes(g, d), edges |-> DvEdges(g, d)]

\* well-formed derivation: the root rewrites the start symbol, every child rewrites a nonterminal
\* edge of its parent with a rule for that nonterminal, at most one child per edge
DvWellFormed(g, d) ==
  /\ Len(d) >= 1 /\ d[1].parent = 0 /\ DvRule(g, d, 1).lhs = g.start
  /\ \A i \in DOMAIN d : i > 1 =>
       /\ d[i].parent \in 1..(i - 1)
       /\ d[i].via \in DOMAIN DvRule(g, d, d[i].parent).edges
       /\ DvRule(g, d, i).lhs = DvRule(g, d, d[i].parent).edges[d[i].via].lab
       /\ d[i].path = d[d[i].parent].path \o <<d[i].via>>
  /\ \A i, j \in DOMAIN d : (i # j /\ d[i].parent = d[j].parent /\ d[i].parent # 0) => d[i].via # d[j].via
DvComplete(g, d) ==
  \A i \in DOMAIN d : \A k \in DOMAIN DvRule(g, d, i).edges :
     ~g.els[DvRule(g, d, i).edges[k].lab].t => DvExpanded(d, i, k)

\* all linearisations: orders of the instances in which every parent precedes its children
DvLinearisations(d) ==
  { o \in [1..Len(d) -> 1..Len(d)] :
      /\ BNoDup(o)
      /\ \A a, b \in 1..Len(d) : d[o[b]].parent = o[a] => a < b }

(* ------------------------------------------------------------------------ *)
(* One replacement step, judged on observed projections (canonical names).   *)
(*  pre, post : [nodes, edges, ext]  (sets / sequence)                        *)
(*  e         : the rewritten edge (canonical)                                *)
(*  rhs       : the replacement graph's own projection, nodes/edges named by  *)
(*              rule-local ids;  nmap/emap : <<local id, host id>> pairs      *)
ReplaceClause(pre, post, e, rhs, nmap, emap, out) ==
  LET typeOK == [i \in DOMAIN rhs.ext |-> rhs.ext[i].l] = e.lab.type
      NM(x) == (CHOOSE p \in BSeqSet(nmap) : p[1] = x)[2]
      EM(x) == (CHOOSE p \in BSeqSet(emap) : p[1] = x)[2]
      inner == { n \in rhs.nodes : ~BHas(rhs.ext, n) }
      fresh == { [id |-> NM(n.id), l |-> n.l] : n \in inner }
      newedges == { [id |-> EM(f.id), lab |-> f.lab, att |-> [m \in DOMAIN f.att |-> [id |-> NM(f.att[m].id), l |-> f.att[m].l]]] : f \in rhs.edges }
  IN
  IF ~typeOK THEN (IF out = "ok" THEN "WrongTypeRejected" ELSE IF post # pre THEN "FailureAtomic" ELSE "ok")
  ELSE IF out # "ok" THEN "Raised"
  ELSE IF e \in post.edges THEN "RemovesTheEdge"
  ELSE IF \E n \in rhs.nodes : ~\E p \in BSeqSet(nmap) : p[1] = n.id THEN "NodeMapTotal"
  ELSE IF \E f \in rhs.edges : ~\E p \in BSeqSet(emap) : p[1] = f.id THEN "EdgeMapTotal"
  ELSE IF \E k \in DOMAIN rhs.ext : NM(rhs.ext[k].id) # e.att[k].id THEN "ExternalsIdentifiedWithAttachments"
  ELSE IF fresh \cap pre.nodes # {} \/ Cardinality(fresh) # Cardinality(inner) \/ \E n \in fresh : \E m \in pre.nodes : m.id = n.id THEN "FreshNodes"
  ELSE IF post.nodes # pre.nodes \cup fresh THEN "NodesArePreservedPlusFreshCopies"
  ELSE IF Cardinality(newedges) # Cardinality(rhs.edges) \/ \E f \in newedges : \E h \in pre.edges : h.id = f.id THEN "FreshEdges"
  ELSE IF post.edges # (pre.edges \ {e}) \cup newedges THEN "EdgesArePreservedPlusFreshCopies"
  ELSE IF post.ext # pre.ext THEN "ExternalNodesUntouched"
  ELSE "ok"
=============================================================================
