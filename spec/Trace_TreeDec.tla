---------------------------- MODULE Trace_TreeDec ----------------------------
(* Batch judge for C10: one case = one graph with the observed results of    *)
(* tree_decomposition (3 methods), min_fill, minor_min_width, quickbb.       *)
EXTENDS MinFill
VARIABLE tid
Cases == JsonDeserialize("cases.json")
Init == tid \in 1..Len(Cases)
Next == UNCHANGED tid

MethodClause(c, m, tw) ==
  LET r == c.td[m] IN
  IF r.out # "ok" THEN "Raised"
  ELSE LET v == TdInvalidClause(c.g, r.t) IN
       IF v # "ok" THEN v
       ELSE IF m \in {"acb", "quickbb"} /\ TdWidth(r.t) # tw THEN "ExactMethodOptimal"
       ELSE IF TdWidth(r.t) < tw THEN "WidthBelowTreewidth"   \* impossible for a valid TD: oracle self-check
       ELSE "ok"

Verdict(c) ==
  LET tw == TdTreewidth(c.g)
      ms == <<"min_fill", "quickbb", "acb">>
      bad == SelectSeq(ms, LAMBDA m: MethodClause(c, m, tw) # "ok")
  IN IF bad # <<>> THEN [v |-> MethodClause(c, bad[1], tw), tags |-> <<bad[1]>>]
     ELSE IF c.mf.out # "ok" \/ c.qbb.out # "ok" \/ c.mmw.out # "ok" THEN [v |-> "Raised", tags |-> <<"helpers">>]
     ELSE IF ~TdIsPermutation(c.g, c.mf.order) THEN [v |-> "MinFillOrderIsPermutation", tags |-> <<>>]
     ELSE IF TdOrderWidth(c.g, c.mf.order) # c.mf.w THEN [v |-> "MinFillReportsItsWidth", tags |-> <<>>]
     \* (the empty graph has treewidth -1 by the bag convention and 0 by the elimination
     \*  convention the helpers use: bracket/optimality clauses apply from one vertex up)
     ELSE IF c.g.n >= 1 /\ ~(c.mmw.w <= tw /\ tw <= c.mf.w) THEN [v |-> "BoundsBracketTreewidth", tags |-> <<>>]
     ELSE IF ~TdIsPermutation(c.g, c.qbb.order) THEN [v |-> "QuickbbOrderIsPermutation", tags |-> <<>>]
     ELSE IF c.g.n >= 1 /\ (c.qbb.w # tw \/ TdOrderWidth(c.g, c.qbb.order) # tw) THEN [v |-> "QuickbbOptimal", tags |-> <<>>]
     ELSE [v |-> "ok", tags |-> <<>>]

Judge == LET c == Cases[tid] r == Verdict(c) IN
         \* mfdrift: first step of the returned min_fill order that does not eliminate a vertex of minimal fill-in
         \* (0 = the order is a behaviour of the MinFill machine); descriptive, never a verdict
         PrintT(ToJson([gtid |-> c.gtid, v |-> r.v, tags |-> r.tags, tw |-> TdTreewidth(c.g),
                        mfdrift |-> IF c.mf.out = "ok" /\ TdIsPermutation(c.g, c.mf.order) THEN MfFirstNonGreedy(c.g, c.mf.order) ELSE 0]))
=============================================================================
