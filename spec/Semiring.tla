------------------------------ MODULE Semiring ------------------------------
(* Star, subtraction and the semiring laws on the exact carriers (C08, C09).  *)
(* SrZero/SrOne/SrAdd/SrMul/SrFromInt are in Semantics.                       *)
EXTENDS Semantics

\* star(x) = least y with y = 1 + x*y
SrStar(sr, x) ==
  CASE sr = "nat"  -> (IF x = 0 THEN 1 ELSE INF)            \* integers: 1/(1-x) is finite only at 0
    [] sr = "mp"   -> (IF x <= 0 THEN 0 ELSE INF)           \* max(0, x, 2x, ..)
    [] sr = "bool" -> 1
\* real star on quarters: x = q/4 ; result exact when 4 - q divides 4
StarQuarter(q) == IF q >= 4 THEN INF ELSE 4 \div (4 - q)
StarQuarterExact(q) == q >= 4 \/ 4 % (4 - q) = 0

\* sub(x, y): some d with d + y = x (required only when y <= x)
SrSubOK(sr, x, y, d) == SrAdd(sr, d, y) = x

\* ---- the laws, as predicates over a set P of carrier points (R3: checked by TLC on the carriers)
LawAddAssoc(sr, P) == \A a, b, c \in P : SrAdd(sr, SrAdd(sr, a, b), c) = SrAdd(sr, a, SrAdd(sr, b, c))
LawAddComm(sr, P)  == \A a, b \in P : SrAdd(sr, a, b) = SrAdd(sr, b, a)
LawMulAssoc(sr, P) == \A a, b, c \in P : SrMul(sr, SrMul(sr, a, b), c) = SrMul(sr, a, SrMul(sr, b, c))
LawMulComm(sr, P)  == \A a, b \in P : SrMul(sr, a, b) = SrMul(sr, b, a)
LawIdent(sr, P)    == \A a \in P : SrAdd(sr, a, SrZero(sr)) = a /\ SrMul(sr, a, SrOne(sr)) = a
LawAnnih(sr, P)    == \A a \in P : SrMul(sr, a, SrZero(sr)) = SrZero(sr)
LawDistrib(sr, P)  == \A a, b, c \in P : SrMul(sr, a, SrAdd(sr, b, c)) = SrAdd(sr, SrMul(sr, a, b), SrMul(sr, a, c))
LawFromInt(sr)     == /\ SrFromInt(sr, 0) = SrZero(sr) /\ SrFromInt(sr, 1) = SrOne(sr)
                      /\ \A m, n \in 0..4 : /\ SrFromInt(sr, m + n) = SrAdd(sr, SrFromInt(sr, m), SrFromInt(sr, n))
                                            /\ SrFromInt(sr, m * n) = SrMul(sr, SrFromInt(sr, m), SrFromInt(sr, n))
\* star is a solution, and the least one among the carrier points
LawStar(sr, P)     == \A x \in P : LET y == SrStar(sr, x) IN
                         /\ y = SrAdd(sr, SrOne(sr), SrMul(sr, x, y))
                         /\ \A z \in P : z = SrAdd(sr, SrOne(sr), SrMul(sr, x, z)) => y <= z
AllLaws(sr, P) == LawAddAssoc(sr, P) /\ LawAddComm(sr, P) /\ LawMulAssoc(sr, P) /\ LawMulComm(sr, P)
                  /\ LawIdent(sr, P) /\ LawAnnih(sr, P) /\ LawDistrib(sr, P) /\ LawFromInt(sr) /\ LawStar(sr, P)
=============================================================================
