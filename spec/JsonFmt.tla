------------------------------ MODULE JsonFmt ------------------------------
(* The JSON format of grammars (C14), judged relationally.                    *)
(* Abstract side: grammar g (harness/ag.py) whose rules carry, per node and   *)
(* edge, the explicit id or "" for an implicit one: r.nid, r.eid.             *)
(* JSON side: the object fgg_to_json returned, with factor weights projected  *)
(* to [shape, flat] on the integer carrier.                                   *)
EXTENDS Base

JHasId(x) == "id" \in DOMAIN x
JId(x) == IF JHasId(x) THEN x.id ELSE ""

\* label tables
JLabelsOK(g, jg) ==
  /\ DOMAIN jg.terminals = { n \in DOMAIN g.els : g.els[n].t }
  /\ DOMAIN jg.nonterminals = { n \in DOMAIN g.els : ~g.els[n].t }
  /\ \A n \in DOMAIN jg.terminals : jg.terminals[n].type = g.els[n].type
  /\ \A n \in DOMAIN jg.nonterminals : jg.nonterminals[n].type = g.els[n].type
  /\ jg.start = g.start

\* JSON rule jr is isomorphic to abstract rule r via pi : abstract node index -> JSON node NUMBER (0-based)
JRuleIsoVia(r, jr, pi) ==
  LET n == Len(r.nodes) IN
  /\ \A i \in 1..n : jr.rhs.nodes[pi[i] + 1].label = r.nodes[i] /\ JId(jr.rhs.nodes[pi[i] + 1]) = r.nid[i]
  /\ LET ae == [k \in DOMAIN r.edges |-> [lab |-> r.edges[k].lab, att |-> [m \in DOMAIN r.edges[k].att |-> pi[r.edges[k].att[m]]], id |-> r.eid[k]]]
         je == [k \in DOMAIN jr.rhs.edges |-> [lab |-> jr.rhs.edges[k].label, att |-> jr.rhs.edges[k].attachments, id |-> JId(jr.rhs.edges[k])]]
     IN /\ Len(ae) = Len(je)
        /\ \A k \in DOMAIN ae : Cardinality({ q \in DOMAIN ae : ae[q] = ae[k] }) = Cardinality({ q \in DOMAIN je : je[q] = ae[k] })
  /\ [k \in DOMAIN r.ext |-> pi[r.ext[k]]] = jr.rhs.externals
JRuleWF(jr) ==
  LET n == Len(jr.rhs.nodes) IN
  /\ \A k \in DOMAIN jr.rhs.edges : \A m \in DOMAIN jr.rhs.edges[k].attachments : jr.rhs.edges[k].attachments[m] \in 0..(n - 1)
  /\ \A k \in DOMAIN jr.rhs.externals : jr.rhs.externals[k] \in 0..(n - 1)
JRuleIso(r, jr) ==
  /\ jr.lhs = r.lhs
  /\ Len(jr.rhs.nodes) = Len(r.nodes)
  /\ JRuleWF(jr)
  /\ LET n == Len(r.nodes) IN \E pi \in [1..n -> 0..(n - 1)] : BNoDup(pi) /\ JRuleIsoVia(r, jr, pi)

\* the rules of each left-hand side correspond in order
JRulesOK(g, jg) ==
  /\ Len(jg.rules) = Len(g.rules)
  /\ \A X \in { g.rules[i].lhs : i \in DOMAIN g.rules } :
       LET a == SelectSeq(g.rules, LAMBDA r: r.lhs = X)
           b == SelectSeq(jg.rules, LAMBDA r: r.lhs = X)
       IN Len(a) = Len(b) /\ \A i \in DOMAIN a : JRuleIso(a[i], b[i])

\* interpretation: domains and (projected) factor weights
JDomOK(g, ji) ==
  /\ DOMAIN ji.domains = DOMAIN g.nls
  /\ \A n \in DOMAIN g.nls :
       IF ji.domains[n].class = "range" THEN ji.domains[n].size = g.nls[n] /\ ~g.finite
       ELSE ji.domains[n].class = "finite" /\ g.finite /\ Len(ji.domains[n].values) = g.nls[n]
JFacOK(g, ji) ==
  /\ DOMAIN ji.factors = { n \in DOMAIN g.els : g.els[n].t }
  /\ \A n \in DOMAIN ji.factors :
       /\ ji.factors[n].function = "finite"
       /\ ji.factors[n].weights.shape = [i \in DOMAIN g.els[n].type |-> g.nls[g.els[n].type[i]]]
       /\ ji.factors[n].weights.flat = g.w[n]

JClause(g, j) ==
  IF ~JLabelsOK(g, j.grammar) THEN "LabelsTypesStart"
  ELSE IF ~JRulesOK(g, j.grammar) THEN "RulesIsomorphicInOrder"
  ELSE IF ~JDomOK(g, j.interpretation) THEN "DomainsEqual"
  ELSE IF ~JFacOK(g, j.interpretation) THEN "FactorWeightsDenoteSameTensor"
  ELSE "ok"
=============================================================================
