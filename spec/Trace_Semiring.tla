---------------------------- MODULE Trace_Semiring ----------------------------
(* Batch judge for C08.  Case kinds:                                          *)
(*  "ew"   : an elementwise binary op on two operands of some representation: *)
(*           A, B flat carrier values (the dense tensors the operands denote),*)
(*           R flat intervals of the observed result                          *)
(*  "law"  : a triple (a,b,c) with both sides of every law as observed        *)
(*  "star" : x and observed star(x)          "star4": x in quarters (Real/Log)*)
(*  "sub"  : x, y and the observed add(sub(x,y), y)                           *)
(*  "fromint": n and observed from_int(n)                                    *)
(*  "sum"  : a vector and its observed sum / add_ fold                        *)
EXTENDS Semiring, Binade
VARIABLE tid
Cases == JsonDeserialize("cases.json")
Init == tid \in 1..Len(Cases)
Next == UNCHANGED tid

In(v, iv) == iv[1] <= v /\ v <= iv[2]
Op(sr, op, a, b) == IF op = "add" THEN SrAdd(sr, a, b) ELSE SrMul(sr, a, b)

(* "bn": the whole floating-point range on powers of two (spec/Binade.tla): c.fam the semiring ("real", "log",   *)
(* "vit"), c.f the format, c.op, operands c.x c.y c.z, observations c.r c.r2 (binade triples), c.eq (the two      *)
(* sides of a law compared as floats), c.n, c.rmilli.                                                          *)
BnVerdict(c) ==
  LET f == c.f x == c.x y == c.y z == c.z r == c.r r2 == c.r2
      mul(u, v) == IF c.fam = "real" THEN BnMulReal(f, u, v) ELSE BnMulLog(f, u, v)
      zero == IF c.fam = "real" THEN BnZ ELSE BnInf(-1)
      uj(v) == v.k = "unjudged"
  IN
  IF c.op = "mul" THEN (IF uj(mul(x, y)) \/ BnSame(r, mul(x, y)) THEN "ok" ELSE "MulEqualsCarrierMul")
  ELSE IF c.op = "mul_comm_assoc" THEN
       \* r = (x*y)*z, r2 = x*(y*z), both judged only if every partial product stays inside the format
       LET xy == mul(x, y) yz == mul(y, z) IN
       IF uj(xy) \/ uj(yz) THEN "ok"
       ELSE LET l == mul(xy, z) rr == mul(x, yz) IN
            IF uj(l) \/ uj(rr) THEN "ok"
            ELSE IF c.fam # "real" /\ ~(BnSumExact(x, y) /\ BnSumExact(y, z) /\ BnSumExact(xy, z) /\ BnSumExact(x, yz)) THEN "ok"   \* rounding: no claim
            ELSE IF ~BnSame(r, l) \/ ~BnSame(r2, rr) \/ ~BnSame(l, rr) THEN "MulAssociative" ELSE "ok"
  ELSE IF c.op = "add" THEN
       (IF c.fam = "real" THEN (IF uj(BnAddReal(f, x, y)) \/ (BnSame(r, BnAddReal(f, x, y)) /\ BnSame(r2, BnAddReal(f, x, y))) THEN "ok" ELSE "AddEqualsCarrierAdd")
        ELSE IF c.fam = "vit" THEN (IF BnSame(r, BnMaxSigned(x, y)) /\ BnSame(r2, BnMaxSigned(x, y)) THEN "ok" ELSE "AddEqualsCarrierAdd")
        ELSE (IF BnLogAddOK(f, x, y, r) /\ BnLogAddOK(f, y, x, r2) /\ BnSame(r, r2) THEN "ok" ELSE "AddEqualsCarrierAdd"))
  ELSE IF c.op = "distrib" THEN
       \* Real, powers of two, y + z exact (exponents closer than the mantissa) and everything in range: x(y+z) = xy + xz exactly
       LET s == BnAddReal(f, y, z) IN
       IF x.k # "b" \/ y.k # "b" \/ z.k # "b" \/ uj(s) \/ BAbs(y.e - z.e) >= f.mant - 1 THEN "ok"
       ELSE IF ~BnInRange(f, x.e + BMin(y.e, z.e)) \/ ~BnInRange(f, x.e + s.e + 1) THEN "ok"
       ELSE IF ~c.eq \/ r.k # "b" \/ r.e # x.e + s.e \/ r.p # s.p THEN "Distributive" ELSE "ok"
  ELSE IF c.op = "ident" THEN (IF BnSame(r, x) /\ BnSame(r2, x) THEN "ok" ELSE "Identities")              \* x + 0, x * 1
  ELSE IF c.op = "annih" THEN (IF BnSame(r, zero) /\ BnSame(r2, zero) THEN "ok" ELSE "ZeroAnnihilates")    \* x * 0, 0 * x
  ELSE IF c.op = "sub" THEN (IF BnSame(r, x) THEN "ok" ELSE "SubThenAddRestores")                           \* (x - y) + y, y <= x
  ELSE IF c.op = "star" THEN
       (IF c.fam = "real" THEN (IF BnStarRealPow(f, x, r) THEN "ok" ELSE "StarIsLeastSolution")
        ELSE IF c.fam = "vit" THEN (IF BnStarVit(x, r) THEN "ok" ELSE "StarIsLeastSolution")
        ELSE (IF BnStarLogPow(f, x, r) THEN "ok" ELSE "StarIsLeastSolution"))
  ELSE IF c.op = "star_om" THEN
       (IF c.fam = "real" THEN (IF BnStarRealOm(c.n, r) THEN "ok" ELSE "StarIsLeastSolution")
        ELSE (IF BnStarLogOm(c.n, c.rmilli) THEN "ok" ELSE "StarIsLeastSolution"))
  ELSE "UnknownCase"

Verdict(c) ==
  IF c.out # "ok" THEN "Raised"
  ELSE IF c.kind = "ew" THEN
     IF Len(c.R) # Len(c.A) \/ Len(c.B) # Len(c.A) THEN "ResultShape"
     ELSE IF \E k \in DOMAIN c.A : ~In(Op(c.sr, c.op, c.A[k], c.B[k]), c.R[k])
          THEN (IF c.op = "add" THEN "AddEqualsCarrierAdd" ELSE "MulEqualsCarrierMul")
     ELSE "ok"
  ELSE IF c.kind = "ewsame" THEN
     IF Len(c.R) # Len(c.Rt) THEN "ResultShape"
     ELSE IF \E k \in DOMAIN c.R : c.R[k] # c.Rt[k] THEN "SubSameOnTensorsAndPatternedTensors"
     ELSE "ok"
  ELSE IF c.kind = "law" THEN
     LET a == c.a b == c.b x == c.c s == c.sr IN
     IF ~In(SrAdd(s, SrAdd(s, a, b), x), c.addl) \/ ~In(SrAdd(s, a, SrAdd(s, b, x)), c.addr) THEN "AddAssociative"
     ELSE IF ~In(SrMul(s, SrMul(s, a, b), x), c.mull) \/ ~In(SrMul(s, a, SrMul(s, b, x)), c.mulr) THEN "MulAssociative"
     ELSE IF ~In(SrMul(s, a, SrAdd(s, b, x)), c.distl) \/ ~In(SrAdd(s, SrMul(s, a, b), SrMul(s, a, x)), c.distr) THEN "Distributive"
     ELSE IF ~In(SrAdd(s, a, b), c.ab) \/ ~In(SrAdd(s, b, a), c.ba) THEN "AddCommutative"
     ELSE IF ~In(SrMul(s, a, b), c.mab) \/ ~In(SrMul(s, b, a), c.mba) THEN "MulCommutative"
     ELSE IF ~In(a, c.a0) \/ ~In(a, c.a1) THEN "Identities"
     ELSE IF ~In(SrZero(s), c.az) THEN "ZeroAnnihilates"
     ELSE "ok"
  ELSE IF c.kind = "star" THEN (IF In(SrStar(c.sr, c.x), c.r) THEN "ok" ELSE "StarIsLeastSolution")
  ELSE IF c.kind = "star4" THEN (IF In(StarQuarter(c.x), c.r) THEN "ok" ELSE "StarIsLeastSolution")
  ELSE IF c.kind = "sub" THEN (IF c.y <= c.x => In(c.x, c.r) THEN "ok" ELSE "SubThenAddRestores")
  ELSE IF c.kind = "fromint" THEN (IF In(SrFromInt(c.sr, c.n), c.r) THEN "ok" ELSE "FromIntHomomorphism")
  ELSE IF c.kind = "sum" THEN
     LET s == FoldLeft(LAMBDA acc, v: SrAdd(c.sr, acc, v), SrZero(c.sr), c.xs) IN
     IF ~In(s, c.sum) THEN "SumAgreesWithAdd" ELSE IF ~In(s, c.addfold) THEN "AddInPlaceAgreesWithAdd" ELSE "ok"
  ELSE IF c.kind = "bn" THEN BnVerdict(c)
  ELSE "UnknownCase"

Judge == LET c == Cases[tid] IN PrintT(ToJson([gtid |-> c.gtid, v |-> Verdict(c), tags |-> c.tag]))
=============================================================================
