---------------------------- MODULE Trace_Semiring ----------------------------
(* Batch judge for C08.  Case kinds:                                          *)
(*  "ew"   : an elementwise binary op on two operands of some representation: *)
(*           A, B flat carrier values (the dense tensors the operands denote),*)
(*           R flat intervals of the observed result                          *)
(*  "law"  : a triple (a,b,c) with both sides of every law as observed        *)
(*  "star" : x and observed star(x)          "star4": x in quarters (Real/Log)*)
(*  "sub"  : x, y and the observed add(sub(x,y), y)                           *)
(*  "fromint": n and observed from_int(n)                                    *)
(*  "sum"  : a vector and its observed sum / add_ fold                        *)
EXTENDS Semiring
VARIABLE tid
Cases == JsonDeserialize("cases.json")
Init == tid \in 1..Len(Cases)
Next == UNCHANGED tid

In(v, iv) == iv[1] <= v /\ v <= iv[2]
Op(sr, op, a, b) == IF op = "add" THEN SrAdd(sr, a, b) ELSE SrMul(sr, a, b)

Verdict(c) ==
  IF c.out # "ok" THEN "Raised"
  ELSE IF c.kind = "ew" THEN
     IF Len(c.R) # Len(c.A) \/ Len(c.B) # Len(c.A) THEN "ResultShape"
     ELSE IF \E k \in DOMAIN c.A : ~In(Op(c.sr, c.op, c.A[k], c.B[k]), c.R[k])
          THEN (IF c.op = "add" THEN "AddEqualsCarrierAdd" ELSE "MulEqualsCarrierMul")
     ELSE "ok"
  ELSE IF c.kind = "ewsame" THEN
     IF Len(c.R) # Len(c.Rt) THEN "ResultShape"
     ELSE IF \E k \in DOMAIN c.R : c.R[k] # c.Rt[k] THEN "SubSameOnTensorsAndPatternedTensors"
     ELSE "ok"
  ELSE IF c.kind = "law" THEN
     LET a == c.a b == c.b x == c.c s == c.sr IN
     IF ~In(SrAdd(s, SrAdd(s, a, b), x), c.addl) \/ ~In(SrAdd(s, a, SrAdd(s, b, x)), c.addr) THEN "AddAssociative"
     ELSE IF ~In(SrMul(s, SrMul(s, a, b), x), c.mull) \/ ~In(SrMul(s, a, SrMul(s, b, x)), c.mulr) THEN "MulAssociative"
     ELSE IF ~In(SrMul(s, a, SrAdd(s, b, x)), c.distl) \/ ~In(SrAdd(s, SrMul(s, a, b), SrMul(s, a, x)), c.distr) THEN "Distributive"
     ELSE IF ~In(SrAdd(s, a, b), c.ab) \/ ~In(SrAdd(s, b, a), c.ba) THEN "AddCommutative"
     ELSE IF ~In(SrMul(s, a, b), c.mab) \/ ~In(SrMul(s, b, a), c.mba) THEN "MulCommutative"
     ELSE IF ~In(a, c.a0) \/ ~In(a, c.a1) THEN "Identities"
     ELSE IF ~In(SrZero(s), c.az) THEN "ZeroAnnihilates"
     ELSE "ok"
  ELSE IF c.kind = "star" THEN (IF In(SrStar(c.sr, c.x), c.r) THEN "ok" ELSE "StarIsLeastSolution")
  ELSE IF c.kind = "star4" THEN (IF In(StarQuarter(c.x), c.r) THEN "ok" ELSE "StarIsLeastSolution")
  ELSE IF c.kind = "sub" THEN (IF c.y <= c.x => In(c.x, c.r) THEN "ok" ELSE "SubThenAddRestores")
  ELSE IF c.kind = "fromint" THEN (IF In(SrFromInt(c.sr, c.n), c.r) THEN "ok" ELSE "FromIntHomomorphism")
  ELSE IF c.kind = "sum" THEN
     LET s == FoldLeft(LAMBDA acc, v: SrAdd(c.sr, acc, v), SrZero(c.sr), c.xs) IN
     IF ~In(s, c.sum) THEN "SumAgreesWithAdd" ELSE IF ~In(s, c.addfold) THEN "AddInPlaceAgreesWithAdd" ELSE "ok"
  ELSE "UnknownCase"

Judge == LET c == Cases[tid] IN PrintT(ToJson([gtid |-> c.gtid, v |-> Verdict(c), tags |-> c.tag]))
=============================================================================
