------------------------------ MODULE Domains ------------------------------
(* Domains and finite factors (C20).                                         *)
(*   domain == [cls |-> "finite", vals |-> <<v1,..>>]  (distinct values)      *)
(*           | [cls |-> "range",  vals |-> <<0,..,n-1>>]                      *)
(* Values are small naturals standing for arbitrary hashable Python values    *)
(* (the driver maps them to strings, tuples and ints).                        *)
EXTENDS Base

DomSize(d) == Len(d.vals)
DomNumberize(d, v) == BIndexOf(d.vals, v) - 1          \* defined for v in the domain
DomDenumberize(d, i) == d.vals[i + 1]
DomContains(d, v) == BHas(d.vals, v)
DomEq(d1, d2) == d1.cls = d2.cls /\ d1.vals = d2.vals  \* equality by content (class and value sequence)

FacShape(doms) == [i \in DOMAIN doms |-> DomSize(doms[i])]
FacAccepts(doms, wshape) == wshape = FacShape(doms)
\* weights of a factor are the flat row-major sequence w; apply(values) = weight at the numberized position
FacApply(doms, w, values) == w[BFlat(FacShape(doms), [i \in DOMAIN doms |-> DomNumberize(doms[i], values[i])])]
FacEq(f1, f2) == /\ Len(f1.doms) = Len(f2.doms)
                 /\ \A i \in DOMAIN f1.doms : DomEq(f1.doms[i], f2.doms[i])
                 /\ f1.w = f2.w

(* Binding a factor to a terminal edge label whose type is a sequence of node     *)
(* labels, in an interpretation `bound` (node label -> domain, for the labels     *)
(* that have one): allowed exactly when the arities agree and, POSITION BY        *)
(* POSITION, the factor's domain equals the domain bound to the node label at     *)
(* that position (a node label occurring several times is checked at every        *)
(* occurrence); shape() is then the tuple of domain sizes.                        *)
BindAllowed(type, bound, fdoms) ==
  /\ Len(fdoms) = Len(type)
  /\ \A i \in DOMAIN type : type[i] \in DOMAIN bound /\ DomEq(fdoms[i], bound[type[i]])
BindShape(type, bound) == [i \in DOMAIN type |-> DomSize(bound[type[i]])]
=============================================================================
