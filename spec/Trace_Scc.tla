----------------------------- MODULE Trace_Scc ------------------------------
(* Batch judge for C19: each case is one observed call of fggs.utils.scc     *)
(* (kind "scc") or fggs.utils.nonterminal_graph (kind "nt").  For "scc" the   *)
(* driver also observed the order in which the code read g[v] (= entered       *)
(* visit(v)); the Tarjan machine is replayed on the same input and a difference *)
(* in visiting or emission order is reported as drift of that descriptive model *)
(* (never a verdict).                                                         *)
EXTENDS Tarjan
VARIABLE tid
Cases == JsonDeserialize("cases.json")
Init == tid \in 1..Len(Cases)
Next == UNCHANGED tid
Verdict(c) == IF c.kind = "scc" THEN
                 IF c.out # "ok" THEN "Raised" ELSE SccVerdict(c.g, c.comps)
              ELSE IF c.out # "ok" THEN "Raised" ELSE SccNtVerdict(c.g, c.verts, c.edges, c.keys)
Drift(c) == IF c.kind = "scc" /\ c.out = "ok" /\ c.g.n <= 8
            THEN TjDrift([n |-> c.g.n, adj |-> c.g.adj, order |-> c.order], c.visits, c.comps) ELSE "none"
Judge == PrintT(ToJson([gtid |-> Cases[tid].gtid, v |-> Verdict(Cases[tid]), tags |-> <<>>, drift |-> Drift(Cases[tid])]))
=============================================================================
