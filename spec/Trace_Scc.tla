----------------------------- MODULE Trace_Scc ------------------------------
(* Batch judge for C19: each case is one observed call of fggs.utils.scc     *)
(* (kind "scc") or fggs.utils.nonterminal_graph (kind "nt").                 *)
EXTENDS Scc
VARIABLE tid
Cases == JsonDeserialize("cases.json")
Init == tid \in 1..Len(Cases)
Next == UNCHANGED tid
Verdict(c) == IF c.kind = "scc" THEN
                 IF c.out # "ok" THEN "Raised" ELSE SccVerdict(c.g, c.comps)
              ELSE IF c.out # "ok" THEN "Raised" ELSE SccNtVerdict(c.g, c.verts, c.edges, c.keys)
Judge == PrintT(ToJson([gtid |-> Cases[tid].gtid, v |-> Verdict(Cases[tid]), tags |-> <<>>]))
=============================================================================
