---------------------------- MODULE Trace_Session ----------------------------
(* Trace judge for C18: one case = one history of queries executed on the SAME  *)
(* real objects.  Each event carries digests (computed by the driver over a deep *)
(* snapshot: structure, storage bytes, sizes, strides, offsets, defaults,        *)
(* requires_grad, grad presence) of every argument before and after the call,    *)
(* and a digest of the canonical form of the result.  c.first[q] is the digest   *)
(* of the result of q on a fresh copy of the objects.                            *)
EXTENDS Base
VARIABLES tid
Cases == JsonDeserialize("cases.json")
Init == tid \in 1..Len(Cases)
Next == UNCHANGED tid
Verdict(c) ==
  LET ev == c.events
      mutated == { i \in DOMAIN ev : ev[i].post # ev[i].pre }     \* also when the call raised
      raised == { i \in DOMAIN ev : ev[i].out # "ok" /\ ev[i].out # c.firstout[ev[i].q] }
      diverged == { i \in DOMAIN ev : ev[i].out = "ok" /\ c.firstout[ev[i].q] = "ok" /\ ev[i].res # c.first[ev[i].q] }
      drift == { i \in DOMAIN ev : i > 1 /\ ev[i].pre # ev[i - 1].post }
      \* the snapshot also holds the process-wide state a query could disturb (autograd mode, default dtype, the
      \* constants a fresh semiring hands out): ev.what names the first component that differs
      glob(i) == Len(ev[i].what) >= 7 /\ SubSeq(ev[i].what, 1, 7) = "globals"
  IN IF mutated # {} THEN [v |-> IF glob(Min(mutated)) THEN "QueryLeavesGlobalStateUnchanged" ELSE "QueryLeavesItsArgumentsUnchanged",
                           tags |-> <<ev[Min(mutated)].q, ev[Min(mutated)].what>>]
     ELSE IF drift # {} THEN [v |-> "HarnessSnapshotInconsistent", tags |-> <<>>]
     ELSE IF raised # {} THEN [v |-> "SameOutcomeInAnyInterleaving", tags |-> <<ev[Min(raised)].q>>]
     ELSE IF diverged # {} THEN [v |-> "SameResultInAnyInterleaving", tags |-> <<ev[Min(diverged)].q>>]
     ELSE [v |-> "ok", tags |-> <<>>]
Judge == LET c == Cases[tid] r == Verdict(c) IN PrintT(ToJson([gtid |-> c.gtid, v |-> r.v, tags |-> r.tags]))
=============================================================================
