----------------------------- MODULE MC_LinSolve -----------------------------
(* R3 for C09: on every system over a small set of carrier points the value   *)
(* LsLeast computes is a solution of x = A x + b and lies above every Kleene   *)
(* iterate (so it is the least solution = sum over k of A^k b).                *)
EXTENDS LinSolve
CONSTANTS N
VARIABLES sr, A, b
Pts(s) == CASE s = "nat" -> {0, 1, 2, INF} [] s = "mp" -> {NINF, -1, 0, 1} [] s = "bool" -> {0, 1}
Init == /\ sr \in {"nat", "mp", "bool"}
        /\ A \in [1..(N * N) -> Pts(sr)] /\ b \in [1..N -> Pts(sr)]
Next == UNCHANGED <<sr, A, b>>
IsSolution == LET x == LsLeast(sr, A, N, b) IN LsStep(sr, A, N, b, x) = x
AboveIterates == LET x == LsLeast(sr, A, N, b) IN \A k \in 0..(3 * N + 3) : \A i \in 1..N : LsKleene(sr, A, N, b, k)[i] <= x[i]
\* and it is least among the solutions over the carrier points (checked by brute force)
LeastAmongSolutions == LET x == LsLeast(sr, A, N, b) IN
   \A y \in [1..N -> Pts(sr) \cup {INF}] : LsStep(sr, A, N, b, y) = y => \A i \in 1..N : x[i] <= y[i]
\* the structural computation used on nat agrees with plain iteration + divergence closure
StructuralAgreesWithIteration == LsLeast(sr, A, N, b) = LsLeastByIteration(sr, A, N, b)
=============================================================================
