---------------------------- MODULE Trace_AxisAlg ----------------------------
(* Batch judge for observed calls of the axis algebra (part of C06).         *)
(* c.kind: "unify" | "antiunify" | "stride" | "index" | "basics"; terms are   *)
(* the READ-BACK structures of the real Axis objects; for unify / antiunify   *)
(* c.ges / c.gfs are the terms the enumerator asked for, and the first clause *)
(* is that the constructed objects denote them.                              *)
EXTENDS AxisAlg
VARIABLE tid
Cases == JsonDeserialize("cases.json")
Init == tid \in 1..Len(Cases)
Next == UNCHANGED tid

Built(c) == AaSame(c.es, c.ges, AaFreeSeq(c.ges)) /\ AaSame(c.fs, c.gfs, AaFreeSeq(c.gfs))
Verdict(c) ==
  IF c.out # "ok" THEN "Raised"
  ELSE CASE c.kind = "unify" -> (IF ~Built(c) THEN "ConstructedAxesDenoteTheTerms" ELSE UnifyClause(c))
         [] c.kind = "antiunify" -> (IF ~Built(c) THEN "ConstructedAxesDenoteTheTerms" ELSE AntiunifyClause(c))
         [] c.kind = "stride" -> StrideClause(c)
         [] c.kind = "index" -> IndexClause(c)
         [] c.kind = "basics" -> BasicsClause(c)
\* drift of the descriptive model of unify (AxisAlg!AuUnify): another outcome, or another set of solutions, than the model
\* computes on the terms the enumerator asked for.  Reported, never gating.
Drift(c) ==
  IF c.kind = "antiunify" /\ c.out = "ok" THEN
       \* the same pairs of sub-terms are generalised as in the model of antiunify (on the read-back operands)
       LET m == AnAsCase(c.es, c.fs) IN
       IF { <<m.an[i].l, m.an[i].r>> : i \in DOMAIN m.an } # { <<c.an[i].l, c.an[i].r>> : i \in DOMAIN c.an } THEN "generalised_pairs" ELSE "none"
  ELSE IF c.kind # "unify" \/ c.out # "ok" THEN "none"
  ELSE LET m == AuAsCase(c.ges, c.gfs) IN
       IF m.ok # c.ok THEN "outcome"
       ELSE IF c.ok /\ AaParam(m) # AaParam([c EXCEPT !.es = c.ges, !.fs = c.gfs]) THEN "solutions"
       ELSE "none"
Judge == LET c == Cases[tid] IN PrintT(ToJson([gtid |-> c.gtid, v |-> Verdict(c), tags |-> c.tag, drift |-> Drift(c)]))
=============================================================================
