------------------------------- MODULE Graphs -------------------------------
(* The mutable objects of fggs.fggs as an abstract heap (C16, C20, C12, C18). *)
(*                                                                            *)
(*  node       [id |-> "x", l |-> "A"]         (implicit ids are "i1","i2",..) *)
(*  edge label [name |-> "a", type |-> <<"A">>, t |-> TRUE]   (t = terminal)   *)
(*  edge       [id |-> "e", lab |-> edge label, att |-> <<node,..>>]           *)
(*  graph      [k |-> "graph", nodes |-> SET of node, edges |-> SET of edge,   *)
(*              ext |-> <<node,..>>, nls |-> SET of names, els |-> SET of labels] *)
(*  hrg        [k |-> "hrg", start |-> label or NoLabel,                       *)
(*              rules |-> <<[lhs |-> label, rhs |-> graph]>>, nls, els,        *)
(*              doms |-> SET of [nl, dom], facs |-> SET of [el, fac]]  (FGG)   *)
(*                                                                            *)
(* Two strata.  NORMATIVE predicates (GraphWF, HRGWF, ...) transcribe the     *)
(* property and are the only source of verdicts; they are evaluated on        *)
(* PROJECTIONS of real objects obtained through public accessors.  The        *)
(* DESCRIPTIVE operators (G_xxx, H_xxx) say what the code does today; they    *)
(* generate behaviours (MC_Graph / MC_HRG) and measure drift, never gate.     *)
EXTENDS Base

NoLabel == [name |-> "", type |-> <<>>, t |-> FALSE]
NoObj == [k |-> "none"]

\* ------------------------------------------------------------- NORMATIVE
NodeIdsUnique(g) == \A m, n \in g.nodes : m.id = n.id => m = n
EdgeIdsUnique(g) == \A e, f \in g.edges : e.id = f.id => e = f
AttachedAreNodes(g) == \A e \in g.edges : \A i \in DOMAIN e.att : e.att[i] \in g.nodes
ExtAreNodes(g) == \A i \in DOMAIN g.ext : g.ext[i] \in g.nodes
EdgeTyping(g) == \A e \in g.edges : [i \in DOMAIN e.att |-> e.att[i].l] = e.lab.type
\* an edge-label name denotes one label with one type (over registered labels and labels in use)
LabelsOf(g) == g.els \cup { e.lab : e \in g.edges }
OneLabelPerName(L) == \A a, b \in L : a.name = b.name => a = b

GraphWFClause(g) ==
  IF ~NodeIdsUnique(g) THEN "NodeIdsUnique"
  ELSE IF ~EdgeIdsUnique(g) THEN "EdgeIdsUnique"
  ELSE IF ~AttachedAreNodes(g) THEN "AttachedAreNodes"
  ELSE IF ~ExtAreNodes(g) THEN "ExtAreNodes"
  ELSE IF ~EdgeTyping(g) THEN "EdgeTyping"
  ELSE IF ~OneLabelPerName(LabelsOf(g)) THEN "OneLabelPerName"
  ELSE "ok"

GraphType(g) == [i \in DOMAIN g.ext |-> g.ext[i].l]
RuleTyped(r) == r.lhs.type = GraphType(r.rhs) /\ ~r.lhs.t
HrgLabels(h) == h.els \cup { h.rules[i].lhs : i \in DOMAIN h.rules }
                      \* (the labels ON the edges of the right-hand sides; a right-hand side's private label table may still
                      \*  remember an edge that was removed before the graph became a rule -- that is the graph's own
                      \*  namespace, judged by GraphWFClause, not a label of the grammar)
                      \cup UNION { { e.lab : e \in h.rules[i].rhs.edges } : i \in DOMAIN h.rules }
                      \cup (IF h.start = NoLabel THEN {} ELSE {h.start})
HRGWFClause(h) ==
  LET bad == { i \in DOMAIN h.rules : GraphWFClause(h.rules[i].rhs) # "ok" } IN
  IF bad # {} THEN GraphWFClause(h.rules[CHOOSE i \in bad : TRUE].rhs)
  ELSE IF \E i \in DOMAIN h.rules : ~RuleTyped(h.rules[i]) THEN "RuleLhsTypeEqualsRhsType"
  ELSE IF h.start # NoLabel /\ h.start.t THEN "StartIsNonterminal"
  ELSE IF ~OneLabelPerName(HrgLabels(h)) THEN "OneLabelPerName"
  ELSE "ok"

\* interpretation (FGG / FactorGraph): a factor bound to a label has that label's arity and domains
\*   dom = [size |-> n, vals |-> <<..>>] ; fac = [doms |-> <<dom..>>, shape |-> <<..>>]
DomOf(o, nl) == (CHOOSE d \in o.doms : d.nl = nl).dom
HasDom(o, nl) == \E d \in o.doms : d.nl = nl
InterpWFClause(o) ==
  IF \E a, b \in o.doms : a.nl = b.nl /\ a # b THEN "OneDomainPerNodeLabel"
  ELSE IF \E a, b \in o.facs : a.el.name = b.el.name /\ a # b THEN "OneFactorPerEdgeLabel"
  ELSE IF \E f \in o.facs : ~f.el.t THEN "FactorsOnlyOnTerminals"
  ELSE IF \E f \in o.facs : Len(f.fac.doms) # Len(f.el.type) THEN "FactorArityMatchesLabel"
  ELSE IF \E f \in o.facs : \E i \in DOMAIN f.el.type :
            ~HasDom(o, f.el.type[i]) \/ DomOf(o, f.el.type[i]) # f.fac.doms[i] THEN "FactorDomainsMatchLabel"
  ELSE IF \E f \in o.facs : f.fac.shape # [i \in DOMAIN f.fac.doms |-> f.fac.doms[i].size] THEN "FactorShapeIsDomainSizes"
  ELSE "ok"

ObjWFClause(o) ==
  IF o.k = "none" THEN "ok"
  ELSE IF o.k = "graph" THEN GraphWFClause(o)
  ELSE IF o.k = "fgraph" THEN (IF GraphWFClause(o) # "ok" THEN GraphWFClause(o) ELSE InterpWFClause(o))
  ELSE IF o.k = "hrg" THEN HRGWFClause(o)
  ELSE (IF HRGWFClause(o) # "ok" THEN HRGWFClause(o) ELSE InterpWFClause(o))

\* what == must distinguish: nodes, edges, external nodes / rules, start
GraphCore(g) == [nodes |-> g.nodes, edges |-> g.edges, ext |-> g.ext]
ObjCore(o) == IF o.k \in {"graph", "fgraph"} THEN GraphCore(o)
              ELSE IF o.k \in {"hrg", "fgg"} THEN
                   [rules |-> [i \in DOMAIN o.rules |-> [lhs |-> o.rules[i].lhs, rhs |-> GraphCore(o.rules[i].rhs)]],
                    start |-> o.start]
              ELSE o

\* ------------------------------------------------------------ DESCRIPTIVE
GEmpty == [k |-> "graph", nodes |-> {}, edges |-> {}, ext |-> <<>>, nls |-> {}, els |-> {}]
GEmptyF == [k |-> "fgraph", nodes |-> {}, edges |-> {}, ext |-> <<>>, nls |-> {}, els |-> {}, doms |-> {}, facs |-> {}]
GHasNodeId(g, id) == \E n \in g.nodes : n.id = id
GHasEdgeId(g, id) == \E e \in g.edges : e.id = id
GAddNodeRaw(g, n) == [g EXCEPT !.nodes = @ \cup {n}, !.nls = @ \cup {n.l}]
ElClash(els, lab) == \E l \in els : l.name = lab.name /\ l # lab
RegEl(els, lab) == { l \in els : l.name # lab.name } \cup {lab}
GAddMissing(g, ns) == FoldLeft(LAMBDA acc, n: IF GHasNodeId(acc, n.id) THEN acc ELSE GAddNodeRaw(acc, n), g, ns)
Ok(g) == [out |-> "ok", o |-> g]
Raise(g) == [out |-> "raise", o |-> g]

\* FIXED selects the behaviour after the fix: commits (validate before mutating, reject a node
\* whose id is present with another label); the descriptive model follows the repaired code.
G_add_node(g, n) == IF GHasNodeId(g, n.id) THEN Raise(g) ELSE Ok(GAddNodeRaw(g, n))
G_remove_node(g, n) ==
  IF ~GHasNodeId(g, n.id) THEN Raise(g)
  ELSE IF n \notin g.nodes THEN Raise(g)
  ELSE IF \E e \in g.edges : BHas(e.att, n) THEN Raise(g)
  ELSE IF BHas(g.ext, n) THEN Raise(g)
  ELSE Ok([g EXCEPT !.nodes = { m \in @ : m.id # n.id }])
NodesConflict(g, ns) == \E i \in DOMAIN ns : GHasNodeId(g, ns[i].id) /\ ns[i] \notin g.nodes
SelfConflict(ns) == \E i, j \in DOMAIN ns : ns[i].id = ns[j].id /\ ns[i] # ns[j]
G_add_edge(g, e) ==
  IF GHasEdgeId(g, e.id) THEN Raise(g)
  ELSE IF NodesConflict(g, e.att) \/ SelfConflict(e.att) THEN Raise(g)
  ELSE IF ElClash(g.els, e.lab) THEN Raise(g)
  ELSE LET g1 == GAddMissing(g, e.att) IN
       Ok([g1 EXCEPT !.edges = @ \cup {e}, !.els = RegEl(@, e.lab)])
G_remove_edge(g, e) ==   \* (the code removes by id, whatever else the given edge says)
  IF ~GHasEdgeId(g, e.id) THEN Raise(g)
  ELSE Ok([g EXCEPT !.edges = { x \in @ : x.id # e.id }])
G_set_ext(g, s) ==
  IF NodesConflict(g, s) \/ SelfConflict(s) THEN Raise(g)
  ELSE Ok([GAddMissing(g, s) EXCEPT !.ext = s])
G_copy(g) == g
\* FactorGraph.from_graph(g): nodes, edges and external nodes of g; label tables re-derived from them; no interpretation
G_from_graph(g) == [k |-> "fgraph", nodes |-> g.nodes, edges |-> g.edges, ext |-> g.ext,
                    nls |-> { n.l : n \in g.nodes }, els |-> { e.lab : e \in g.edges }, doms |-> {}, facs |-> {}]

\* ------------------------------------------------------- heap of handles
\* graph handles g1, g2 ; call records [op, h, ...]; "copy" assigns the OTHER graph handle
OtherG(h) == IF h = "g1" THEN "g2" ELSE IF h = "g2" THEN "g1" ELSE IF h = "h1" THEN "h2" ELSE "h1"
IsGraphMutator(op) == op \in {"add_node", "remove_node", "add_edge", "remove_edge", "set_ext"}
IsHrgMutator(op) == op \in {"set_start", "set_start_str", "add_edge_label", "add_node_label", "add_rule", "new_rule",
                             "add_domain", "add_factor", "set_weights"}
IsMutator(op) == IsGraphMutator(op) \/ IsHrgMutator(op)

\* A rule of an HRG object in the MODEL heap refers to its right-hand side either by VALUE or
\* by HANDLE (the code stores the caller's Graph object: later mutation of that graph is
\* visible through the rule).  rhs == [shared |-> BOOLEAN, g |-> graph value]
RhsOf(st, r) == IF r.rhs.shared THEN st["g1"] ELSE r.rhs.g
\* the PROJECTION of a model heap: what the public accessors would show
ResolveObj(st, o) == IF o.k \in {"hrg", "fgg"}
                     THEN [o EXCEPT !.rules = [i \in DOMAIN o.rules |-> [lhs |-> o.rules[i].lhs, rhs |-> RhsOf(st, o.rules[i])]]]
                     ELSE o
Resolve(st) == [h \in DOMAIN st |-> ResolveObj(st, st[h])]

HrgNew(kind) == [k |-> kind, start |-> NoLabel, rules |-> <<>>, nls |-> {}, els |-> {}, doms |-> {}, facs |-> {}]
H_add_edge_label(h, lab) == IF ElClash(h.els, lab) THEN Raise(h) ELSE Ok([h EXCEPT !.els = RegEl(@, lab)])
H_add_node_label(h, nl) == Ok([h EXCEPT !.nls = @ \cup {nl}])
H_set_start(h, lab) ==
  IF lab.t THEN Raise(h)
  ELSE IF ElClash(h.els, lab) THEN Raise(h)
  ELSE Ok([h EXCEPT !.els = RegEl(@, lab), !.start = lab])
StrLabel(h, name) == IF \E l \in h.els : l.name = name THEN CHOOSE l \in h.els : l.name = name
                     ELSE [name |-> name, type |-> <<>>, t |-> FALSE]
RuleLabelSet(lhs, g) == {lhs} \cup { e.lab : e \in g.edges }
H_add_rule(st, h, lhs, rhs) ==
  LET g == IF rhs.shared THEN st["g1"] ELSE rhs.g
      L == RuleLabelSet(lhs, g) IN
  \* HRGRule(lhs, rhs) itself raises on a terminal lhs or a type mismatch
  IF lhs.t \/ lhs.type # GraphType(g) THEN Raise(h)
  ELSE IF \E l \in L : ElClash(h.els, l) THEN Raise(h)
  ELSE IF ~OneLabelPerName(L) THEN Raise(h)
  ELSE Ok([h EXCEPT !.els = { l \in @ : \A m \in L : m.name # l.name } \cup L,
                    !.nls = @ \cup { n.l : n \in g.nodes },
                    !.rules = Append(@, [lhs |-> lhs, rhs |-> rhs])])
H_copy(st, h) == [h EXCEPT !.rules = [i \in DOMAIN h.rules |->
                     [lhs |-> h.rules[i].lhs, rhs |-> [shared |-> FALSE, g |-> RhsOf(st, h.rules[i])]]]]

\* interpretation.  dom == [cls, size, vals]; fac == [doms |-> <<dom>>, shape |-> <<..>>, w |-> <<..>>]
H_add_domain(h, nl, dom) ==
  IF \E d \in h.doms : d.nl = nl THEN Raise(h)
  ELSE Ok([h EXCEPT !.nls = @ \cup {nl}, !.doms = @ \cup {[nl |-> nl, dom |-> dom]}])
FactorFits(h, el, fac) ==
  /\ Len(fac.doms) = Len(el.type)
  /\ \A i \in DOMAIN el.type : HasDom(h, el.type[i]) /\ DomOf(h, el.type[i]) = fac.doms[i]
H_add_factor(h, el, fac) ==
  IF ~el.t THEN Raise(h)
  ELSE IF ElClash(h.els, el) THEN Raise(h)
  ELSE IF \E f \in h.facs : f.el.name = el.name THEN Raise(h)
  ELSE IF ~FactorFits(h, el, fac) THEN Raise(h)
  ELSE Ok([h EXCEPT !.els = RegEl(@, el), !.facs = @ \cup {[el |-> el, fac |-> fac]}])

\* factor.weights = w : assignment through the public setter (shape must match)
H_set_weights(h, name, w) ==
  IF ~\E f \in h.facs : f.el.name = name THEN Raise(h)
  ELSE LET f == CHOOSE f \in h.facs : f.el.name = name IN
       IF Len(w) # Len(f.fac.w) THEN Raise(h)
       ELSE Ok([h EXCEPT !.facs = (@ \ {f}) \cup {[el |-> f.el, fac |-> [f.fac EXCEPT !.w = w]]}])

SetH(st, c, r) == [out |-> r.out, s |-> [st EXCEPT ![c.h] = r.o]]
HeapApply(st, c) ==
  IF st[c.h].k = "none" /\ c.op \notin {"new", "new_hrg"} THEN [out |-> "skip", s |-> st]
  ELSE IF c.op = "add_node"    THEN SetH(st, c, G_add_node(st[c.h], c.n))
  ELSE IF c.op = "remove_node" THEN SetH(st, c, G_remove_node(st[c.h], c.n))
  ELSE IF c.op = "add_edge"    THEN SetH(st, c, G_add_edge(st[c.h], c.e))
  ELSE IF c.op = "remove_edge" THEN SetH(st, c, G_remove_edge(st[c.h], c.e))
  ELSE IF c.op = "set_ext"     THEN SetH(st, c, G_set_ext(st[c.h], c.x))
  ELSE IF c.op = "copy" /\ c.h \in {"g1", "g2"} THEN [out |-> "ok", s |-> [st EXCEPT ![OtherG(c.h)] = G_copy(st[c.h])]]
  ELSE IF c.op = "from_graph"  THEN [out |-> "ok", s |-> [st EXCEPT ![OtherG(c.h)] = G_from_graph(st[c.h])]]
  ELSE IF c.op = "copy"        THEN
         \* HRG.copy re-creates every HRGRule, whose constructor re-checks lhs type = rhs type
         IF \E i \in DOMAIN st[c.h].rules : st[c.h].rules[i].lhs.type # GraphType(RhsOf(st, st[c.h].rules[i]))
         THEN [out |-> "raise", s |-> st]
         ELSE [out |-> "ok", s |-> [st EXCEPT ![OtherG(c.h)] = H_copy(st, st[c.h])]]
  ELSE IF c.op = "new"         THEN [out |-> "ok", s |-> [st EXCEPT !["g2"] = IF st["g1"].k = "fgraph" THEN GEmptyF ELSE GEmpty]]
  ELSE IF c.op = "new_hrg"     THEN
         \* HRG(start) / FGG(start): start is NoLabel (None), a label, or [str |-> name]
         LET h0 == HrgNew(c.kind)
             r == IF c.start = NoLabel THEN Ok(h0) ELSE H_set_start(h0, c.start)
         IN IF r.out = "raise" THEN [out |-> "raise", s |-> st] ELSE [out |-> "ok", s |-> [st EXCEPT ![c.h] = r.o]]
  ELSE IF c.op = "set_start"      THEN SetH(st, c, H_set_start(st[c.h], c.lab))
  ELSE IF c.op = "set_start_str"  THEN SetH(st, c, H_set_start(st[c.h], StrLabel(st[c.h], c.name)))
  ELSE IF c.op = "add_edge_label" THEN SetH(st, c, H_add_edge_label(st[c.h], c.lab))
  ELSE IF c.op = "add_node_label" THEN SetH(st, c, H_add_node_label(st[c.h], c.nl))
  ELSE IF c.op = "add_rule"       THEN SetH(st, c, H_add_rule(st, st[c.h], c.lhs, c.rhs))
  ELSE IF c.op = "new_rule"       THEN
         LET g == IF c.rhs.shared THEN st["g1"] ELSE c.rhs.g IN
         SetH(st, c, H_add_rule(st, st[c.h], [name |-> c.name, type |-> GraphType(g), t |-> FALSE], c.rhs))
  ELSE IF c.op = "add_domain"     THEN SetH(st, c, H_add_domain(st[c.h], c.nl, c.dom))
  ELSE IF c.op = "add_factor"     THEN SetH(st, c, H_add_factor(st[c.h], c.el, c.fac))
  ELSE IF c.op = "set_weights"    THEN SetH(st, c, H_set_weights(st[c.h], c.name, c.w))
  ELSE [out |-> "skip", s |-> st]
=============================================================================
