------------------------------- MODULE Binade -------------------------------
(* The semirings over the WHOLE range of the floating-point formats (C08):      *)
(* huge values, tiny values, subnormals, the infinite element.                  *)
(*                                                                             *)
(* TLC has neither reals nor floats, but on POWERS OF TWO the IEEE operations    *)
(* the semirings are built from can be described exactly with integers: a        *)
(* number is abstracted to its sign, its BINADE e (2^e <= |x| < 2^(e+1)) and a     *)
(* flag saying that it is exactly 2^e.  The driver obtains this triple from a     *)
(* float with math.frexp (exact, also for subnormals); no tolerance is involved.  *)
(*                                                                             *)
(*   value  [k |-> "z"]            zero (either sign)                            *)
(*          [k |-> "inf", s]       infinite, sign s                              *)
(*          [k |-> "nan"]                                                        *)
(*          [k |-> "b", s, e, p]   finite non-zero: sign s (1 / -1), binade e,    *)
(*                                 p = exactly a power of two                     *)
(*   format [emin, emax, mant]     float64: -1074, 1023, 53; float32: -149, 127, 24 *)
(*                                                                             *)
(* What is CLAIMED on this carrier: for operands that are powers of two and       *)
(* results inside the format's range, products are exact, sums land in the         *)
(* binade arithmetic says they land in (and are exact powers of two exactly when    *)
(* rounding to nearest-even makes them so), identities and annihilation hold for     *)
(* every operand including the infinite one, and star / sub take the values the      *)
(* property states.  A product whose exact value lies outside the range of the       *)
(* format is NOT judged (no floating-point semiring can be associative there).       *)
EXTENDS Base

BnZ == [k |-> "z", s |-> 1, e |-> 0, p |-> FALSE]
BnInf(s) == [k |-> "inf", s |-> s, e |-> 0, p |-> FALSE]
BnNan == [k |-> "nan", s |-> 1, e |-> 0, p |-> FALSE]
BnP(s, e) == [k |-> "b", s |-> s, e |-> e, p |-> TRUE]          \* s * 2^e exactly
BnB(s, e) == [k |-> "b", s |-> s, e |-> e, p |-> FALSE]         \* somewhere inside the binade
BnUnjudged == [k |-> "unjudged", s |-> 1, e |-> 0, p |-> FALSE]   \* exact result outside the format: no claim
BnSame(x, y) == x.k = y.k /\ (x.k \in {"z", "nan"} \/ (x.s = y.s /\ (x.k = "inf" \/ (x.e = y.e /\ x.p = y.p))))
BnInRange(f, e) == f.emin <= e /\ e <= f.emax

(* ---- IEEE on powers of two ------------------------------------------------ *)
\* x * y for non-negative x, y with the semiring convention 0 * inf = 0
BnMulReal(f, x, y) ==
  IF x.k = "z" \/ y.k = "z" THEN BnZ
  ELSE IF x.k = "inf" \/ y.k = "inf" THEN BnInf(1)
  ELSE IF BnInRange(f, x.e + y.e) THEN BnP(1, x.e + y.e) ELSE BnUnjudged
\* x + y for non-negative powers of two (round to nearest even): equal exponents double; otherwise the larger
\* binade, and the result is again a power of two exactly when the smaller operand is at most half an ulp
BnAddPow(f, a, b) ==
  IF a = b THEN (IF BnInRange(f, a + 1) THEN BnP(1, a + 1) ELSE BnUnjudged)
  ELSE LET hi == BMax(a, b) lo == BMin(a, b) IN IF hi - lo >= f.mant THEN BnP(1, hi) ELSE BnB(1, hi)
BnAddReal(f, x, y) ==
  IF x.k = "z" THEN y ELSE IF y.k = "z" THEN x
  ELSE IF x.k = "inf" \/ y.k = "inf" THEN BnInf(1)
  ELSE BnAddPow(f, x.e, y.e)
\* signed sum of two powers of two s1 2^a + s2 2^b (the Log / Viterbi product is the SUM of log-values)
BnAddSigned(f, x, y) ==
  IF x.k = "z" THEN y ELSE IF y.k = "z" THEN x
  ELSE IF x.s = y.s THEN (LET r == BnAddPow(f, x.e, y.e) IN IF r.k = "unjudged" THEN r ELSE [r EXCEPT !.s = x.s])
  ELSE IF x.e = y.e THEN BnZ
  ELSE LET hi == IF x.e > y.e THEN x ELSE y  lo == IF x.e > y.e THEN y ELSE x IN
       IF hi.e - lo.e > f.mant THEN BnP(hi.s, hi.e)                      \* absorbed
       ELSE IF hi.e - lo.e = 1 THEN BnP(hi.s, hi.e - 1)                   \* 2^a - 2^(a-1)
       ELSE BnB(hi.s, hi.e - 1)                                           \* 2^a - 2^b in [2^(a-1), 2^a)
\* Log / Viterbi product of log-values (-inf = semiring zero annihilates, also against +inf)
BnMulLog(f, x, y) ==
  IF (x.k = "inf" /\ x.s = -1) \/ (y.k = "inf" /\ y.s = -1) THEN BnInf(-1)
  ELSE IF x.k = "inf" \/ y.k = "inf" THEN BnInf(1)
  ELSE BnAddSigned(f, x, y)

\* a sum of two log-values that involves no rounding at all (so that re-association cannot matter)
BnSumExact(x, y) == x.k # "b" \/ y.k # "b" \/ x.e = y.e

(* ---- what the observed results must satisfy --------------------------------- *)
\* Log-semiring sum of two log-values: max(x,y) <= r <= max(x,y) + ln 2.  Decided on binades only where that
\* pins the binade down: the larger operand is a positive power of two 2^a with a >= 0 (then r is in binade a),
\* or an operand is the semiring zero (then r is the other operand).
BnLogAddOK(f, x, y, r) ==
  LET big(u, v) == IF u.k = "inf" THEN (IF u.s = 1 THEN u ELSE v)
                   ELSE IF v.k = "inf" THEN (IF v.s = 1 THEN v ELSE u)
                   ELSE IF u.k = "z" THEN (IF v.k = "z" \/ v.s = 1 THEN v ELSE u)
                   ELSE IF v.k = "z" THEN (IF u.s = 1 THEN u ELSE v)
                   ELSE IF u.s # v.s THEN (IF u.s = 1 THEN u ELSE v)
                   ELSE IF u.s = 1 THEN (IF u.e >= v.e THEN u ELSE v) ELSE (IF u.e <= v.e THEN u ELSE v)
      m == big(x, y)
  IN IF (x.k = "inf" /\ x.s = -1) THEN BnSame(r, y)
     ELSE IF (y.k = "inf" /\ y.s = -1) THEN BnSame(r, x)
     ELSE IF m.k = "inf" THEN BnSame(r, BnInf(1))
     ELSE IF m.k = "b" /\ m.s = 1 /\ m.e >= 0 THEN r.k = "b" /\ r.s = 1 /\ r.e = m.e
     ELSE IF m.k = "z" THEN r.k \in {"z", "b"} /\ (r.k = "b" => r.s = 1 /\ r.e <= 0)      \* 0 <= r <= ln 2 < 1
     ELSE TRUE

\* max of two log-values (Viterbi sum): exact
BnMaxSigned(x, y) ==
  LET ge(u, v) == IF u.k = "inf" THEN (u.s = 1 \/ (v.k = "inf" /\ v.s = -1))
                  ELSE IF v.k = "inf" THEN v.s = -1
                  ELSE IF u.k = "z" THEN (v.k = "z" \/ v.s = -1)
                  ELSE IF v.k = "z" THEN u.s = 1
                  ELSE IF u.s # v.s THEN u.s = 1
                  ELSE IF u.s = 1 THEN u.e >= v.e ELSE u.e <= v.e
  IN IF ge(x, y) THEN x ELSE y

\* star on the Real semiring: x = 2^e
BnStarRealPow(f, x, r) ==
  IF x.k = "z" THEN BnSame(r, BnP(1, 0))
  ELSE IF x.k = "inf" \/ x.e >= 0 THEN BnSame(r, BnInf(1))                  \* x >= 1
  ELSE IF x.e = -1 THEN BnSame(r, BnP(1, 1))                                \* 1/(1 - 1/2) = 2
  ELSE IF x.e <= -f.mant - 2 THEN BnSame(r, BnP(1, 0))                       \* 1 - x rounds to 1
  ELSE r.k = "b" /\ r.s = 1 /\ r.e = 0                                       \* 1 <= fl(1/(1-x)) < 2 (the two exponents
                                                                              \* around the mantissa width may round to 1)
\* star at x = 1 - 2^(-k): the least solution of y = 1 + x y is 2^k  (R3: BnStarOmLaw)
BnStarRealOm(k, r) == BnSame(r, BnP(1, k))
BnStarOmLaw(k) == LET den == 2 ^ k  num == den - 1  y == den IN y = 1 + (y \div den) * num
\* Log semiring: the log-value x with exp(x) = 1 - 2^(-k) has star(x) = ln(2^k) = k ln 2; observed in 1/1000
\* (ln 2 = 0.693147...); tolerance 2/1000
BnStarLogOm(k, rmilli) == BAbs(rmilli - ((693147 * k) \div 1000)) <= 2
\* Log semiring at a log-value that is a (signed) power of two
BnStarLogPow(f, x, r) ==
  IF x.k = "inf" /\ x.s = -1 THEN r.k = "z"                                  \* star(zero) = one (log-value 0)
  ELSE IF x.k = "z" \/ x.k = "inf" \/ x.s = 1 THEN BnSame(r, BnInf(1))         \* value >= 1
  ELSE IF x.e >= 6 THEN r.k = "z" \/ (r.k = "b" /\ r.s = 1 /\ r.e <= -90)      \* -log(1 - e^x), e^x < 2^-92
  ELSE TRUE                                                                   \* (x = -2^e, e < 6: judged through BnStarLogOm)
\* Viterbi semiring: 0 for x <= 0 (log-weight of the empty product), +inf above
BnStarVit(x, r) ==
  IF x.k = "z" \/ (x.k = "inf" /\ x.s = -1) \/ (x.k = "b" /\ x.s = -1) THEN r.k = "z"
  ELSE BnSame(r, BnInf(1))
=============================================================================
