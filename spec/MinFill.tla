------------------------------ MODULE MinFill ------------------------------
(* The greedy min-fill heuristic (fggs.factorize.min_fill, also the upper      *)
(* bound of quickbb and the default method of tree_decomposition) as a          *)
(* NONDETERMINISTIC machine (growth, C10 / C05): in every step a vertex whose    *)
(* elimination needs the fewest fill-in edges is eliminated -- ANY such vertex;   *)
(* the code's tie-break (first in dict order) is one behaviour among several.     *)
(*                                                                             *)
(*   state   [nb, order, dmax]   nb: neighbour function of the remaining graph   *)
(*   step    Eliminate(v), enabled iff v has minimal fill-in                     *)
(*                                                                             *)
(* R3 (MC_MinFill): every behaviour ends with a permutation of the vertices        *)
(* whose elimination width is the dmax the machine reports, never below the         *)
(* treewidth; on graphs with <= 5 vertices EVERY tie-break is optimal.              *)
(* Binding: the order returned by the real min_fill is replayed; a step that         *)
(* eliminates a vertex of non-minimal fill-in is DRIFT of this descriptive model      *)
(* (another elimination heuristic is not a violation of C10; the normative clause     *)
(* is only that the reported width is the width of the returned order).               *)
EXTENDS TreeDec

MfFill(nb, v) == Cardinality({ p \in nb[v] \X nb[v] : p[1] < p[2] /\ p[2] \notin nb[p[1]] })
MfMinimal(nb) == { v \in DOMAIN nb : \A u \in DOMAIN nb : MfFill(nb, v) <= MfFill(nb, u) }
MfInit(g) == [nb |-> TdNbrFun(g), order |-> <<>>, dmax |-> 0]
MfDone(s) == DOMAIN s.nb = {}
MfStep(s, v) == [nb |-> TdEliminate(s.nb, v), order |-> Append(s.order, v), dmax |-> BMax(s.dmax, Cardinality(s.nb[v]))]

\* replay of an observed order: position of the first step that is not a min-fill step (0 = none)
MfFirstNonGreedy(g, order) ==
  LET r == FoldLeft(LAMBDA acc, i: IF acc.bad # 0 \/ order[i] \notin DOMAIN acc.s.nb THEN [acc EXCEPT !.bad = IF acc.bad # 0 THEN acc.bad ELSE i]
                                   ELSE IF order[i] \notin MfMinimal(acc.s.nb) THEN [acc EXCEPT !.bad = i]
                                   ELSE [acc EXCEPT !.s = MfStep(acc.s, order[i])],
                    [s |-> MfInit(g), bad |-> 0], BIota(Len(order)))
  IN r.bad
=============================================================================
