-------------------------- MODULE Trace_SumProduct --------------------------
(* Batch judge for C01 (also used by C05 C11 C12 C14 C18): one case = one     *)
(* abstract grammar with the observed results of sum_products under several   *)
(* configurations, each projected onto the exact carrier of its semiring.     *)
(*   c.ag   : grammar                                                        *)
(*   c.runs : <<[sr, tag, out, res |-> [X |-> flat tensor]]>>                *)
EXTENDS Semantics
VARIABLE tid
Cases == JsonDeserialize("cases.json")
Init == tid \in 1..Len(Cases)
Next == UNCHANGED tid

RunClause(c, z, r) ==
  IF r.out # "ok" THEN "Raised"
  \* r.partial: the run reports a subset of the nonterminals (must include the start symbol)
  ELSE IF ~r.partial /\ DOMAIN r.res # Nts(c.ag) THEN "EveryNonterminalHasAValue"
  ELSE IF r.partial /\ ~(c.ag.start \in DOMAIN r.res /\ DOMAIN r.res \subseteq Nts(c.ag)) THEN "StartSymbolHasAValue"
  ELSE IF \E X \in DOMAIN r.res : ~TensorEq(c.ag, X, r.res[X], z[r.sr][X]) THEN "SumProductEqualsDefinition"
  ELSE "ok"

Verdict(c) ==
  LET srs == { c.runs[i].sr : i \in DOMAIN c.runs }
      z == [sr \in srs |-> ZNonRec(sr, c.ag)]
      bad == SelectSeq(c.runs, LAMBDA r: RunClause(c, z, r) # "ok")
  IN
  IF ~NonRecursive(c.ag) THEN [v |-> "GeneratorGaveRecursiveGrammar", tags |-> <<>>]
  ELSE IF bad = <<>> THEN [v |-> "ok", tags |-> <<>>]
  ELSE [v |-> RunClause(c, z, bad[1]), tags |-> bad[1].tag]

Judge == LET c == Cases[tid] r == Verdict(c) IN
         PrintT(ToJson([gtid |-> c.gtid, v |-> r.v, tags |-> r.tags]))
=============================================================================
