----------------------------- MODULE MC_MinFill -----------------------------
(* Every behaviour of the min-fill machine on every labelled simple graph with *)
(* <= MaxN vertices (all tie-breaks).                                          *)
EXTENDS MinFill
CONSTANTS MaxN
VARIABLES g, s
Pairs(n) == { e \in (1..n) \X (1..n) : e[1] < e[2] }
Mk(n, E) == [n |-> n, adj |-> [v \in 1..n |-> SetToSeq({ u \in 1..n : <<u, v>> \in E \/ <<v, u>> \in E })]]
Init == /\ \E n \in 0..MaxN : \E E \in SUBSET Pairs(n) : g = Mk(n, E)
        /\ s = MfInit(g)
Next == \E v \in MfMinimal(s.nb) : s' = MfStep(s, v) /\ UNCHANGED g
OrderIsPermutation == MfDone(s) => TdIsPermutation(g, s.order)
ReportsItsWidth == MfDone(s) => s.dmax = TdOrderWidth(g, s.order)
NeverBelowTreewidth == (MfDone(s) /\ g.n >= 1) => s.dmax >= TdTreewidth(g)
OptimalOnSmallGraphs == (MfDone(s) /\ g.n >= 1 /\ g.n <= 5) => s.dmax = TdTreewidth(g)
ReplayAccepts == MfDone(s) => MfFirstNonGreedy(g, s.order) = 0
=============================================================================
