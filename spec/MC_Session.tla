----------------------------- MODULE MC_Session -----------------------------
(* The library session at the level of C18: a heap of objects that only        *)
(* MUTATORS change (spec/Graphs.tla) and a set of QUERIES, each of which has    *)
(* UNCHANGED heap and a result that is a function of the heap.  The content of  *)
(* this module is the enumeration of HISTORIES: every sequence of queries up to *)
(* the bound, so that each query is observed before and after every other one.  *)
(* R3 (trivial in the model, the point of the conformance check): along every   *)
(* behaviour the heap never changes and equal queries give equal results.       *)
EXTENDS Base
CONSTANTS Queries, MaxLen
VARIABLES heap, hist, results
Obs(q, h) == <<q, h>>                 \* the result of a query is determined by query and heap
Init == heap = "H0" /\ hist = <<>> /\ results = <<>>
Query(q) == /\ Len(hist) < MaxLen
            /\ hist' = Append(hist, q)
            /\ results' = Append(results, Obs(q, heap))
            /\ UNCHANGED heap
Next == \E q \in Queries : Query(q)
Pure == heap = "H0"
Reproducible == \A i, j \in DOMAIN hist : hist[i] = hist[j] => results[i] = results[j]
\* every maximal history is handed to the driver
Dump == Len(hist) = MaxLen => PrintT(ToJson([hist |-> hist]))
=============================================================================
