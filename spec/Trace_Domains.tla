---------------------------- MODULE Trace_Domains ----------------------------
(* Batch judge for C20 (domain / factor part; the binding clause is judged by *)
(* Trace_Graphs on the FGG heap machine).                                     *)
EXTENDS Domains
VARIABLE tid
Cases == JsonDeserialize("cases.json")
Init == tid \in 1..Len(Cases)
Next == UNCHANGED tid

\* observations: o.num = <<[v, r]>> with r = numberize(v) or -1 (raised); o.den = <<[i, r]>>; o.con = <<[v, b]>>
DomClause(c) ==
  LET d == c.d o == c.obs IN
  IF o.out # "ok" THEN "Raised"
  ELSE IF o.size # DomSize(d) THEN "SizeIsNumberOfValues"
  ELSE IF \E k \in DOMAIN o.num : DomContains(d, o.num[k][1]) /\ o.num[k][2] # DomNumberize(d, o.num[k][1]) THEN "NumberizeIsPosition"
  ELSE IF \E k \in DOMAIN o.den : o.den[k][2] # DomDenumberize(d, o.den[k][1]) THEN "DenumberizeInvertsNumberize"
  ELSE IF \E k \in DOMAIN o.con : o.con[k][2] # DomContains(d, o.con[k][1]) THEN "ContainsAgrees"
  ELSE "ok"

Verdict(c) ==
  IF c.k = "dom" THEN DomClause(c)
  ELSE IF c.k = "pair" THEN
     (IF c.out # "ok" THEN "Raised"
      ELSE IF c.eq # DomEq(c.d1, c.d2) \/ c.ne # ~DomEq(c.d1, c.d2) THEN "DomainEqualityByContent" ELSE "ok")
  ELSE IF c.k = "fac" THEN
     (IF (c.out = "ok") # FacAccepts(c.doms, c.wshape) THEN "AcceptsExactlyRightShape"
      ELSE IF c.out = "ok" /\ c.arity # Len(c.doms) THEN "FactorArity"
      ELSE "ok")
  ELSE IF c.k = "apply" THEN
     (IF c.out # "ok" THEN "Raised"
      ELSE IF \E k \in DOMAIN c.app : c.app[k][2] # FacApply(c.doms, c.w, c.app[k][1]) THEN "ApplyIsWeightAtNumberizedPosition"
      ELSE "ok")
  ELSE IF c.k = "faceq" THEN
     (IF c.out # "ok" THEN "Raised"
      ELSE IF c.eq # FacEq(c.f1, c.f2) THEN "FactorEqualityByDomainsAndWeights" ELSE "ok")
  ELSE IF c.k = "shape" THEN
     (IF c.out # "ok" THEN "Raised"
      ELSE IF c.shape # FacShape(c.doms) THEN "ShapeIsDomainSizes" ELSE "ok")
  ELSE IF c.k = "bind" THEN
     \* add_factor on a fresh interpretation with A, B bound: accepted exactly when BindAllowed; then shape() reports the sizes
     LET bound == [nl \in {"A", "B"} |-> IF nl = "A" THEN c.a ELSE c.b] IN
     (IF c.out \notin {"ok", "raise:ValueError"} THEN "Raised"
      ELSE IF (c.out = "ok") # BindAllowed(c.type, bound, c.fdoms) THEN "BindOnlyMatchingArityAndDomains"
      ELSE IF c.out = "ok" /\ c.shape # BindShape(c.type, bound) THEN "ShapeIsDomainSizes"
      ELSE IF c.out = "ok" /\ ~c.second_rejected THEN "BindOnlyUnboundLabel"
      ELSE IF c.out # "ok" /\ c.bound_after THEN "FailureAtomic"
      ELSE "ok")
  ELSE IF c.k = "dom_hist" THEN
     \* the domain was built from a list that the caller changed afterwards: the domain is either the one it was built
     \* as (the code copies the list) or, consistently, the one the list now spells -- never a mixture
     (IF DomClause(c) = "ok" \/ DomClause([c EXCEPT !.d = c.d2]) = "ok" THEN "ok" ELSE DomClause(c))
  ELSE "UnknownCase"

Judge == LET c == Cases[tid] IN PrintT(ToJson([gtid |-> c.gtid, v |-> Verdict(c), tags |-> c.tag]))
=============================================================================
