---------------------------- MODULE Trace_Domains ----------------------------
(* Batch judge for C20 (domain / factor part; the binding clause is judged by *)
(* Trace_Graphs on the FGG heap machine).                                     *)
EXTENDS Domains
VARIABLE tid
Cases == JsonDeserialize("cases.json")
Init == tid \in 1..Len(Cases)
Next == UNCHANGED tid

\* observations: o.num = <<[v, r]>> with r = numberize(v) or -1 (raised); o.den = <<[i, r]>>; o.con = <<[v, b]>>
DomClause(c) ==
  LET d == c.d o == c.obs IN
  IF o.out # "ok" THEN "Raised"
  ELSE IF o.size # DomSize(d) THEN "SizeIsNumberOfValues"
  ELSE IF \E k \in DOMAIN o.num : DomContains(d, o.num[k][1]) /\ o.num[k][2] # DomNumberize(d, o.num[k][1]) THEN "NumberizeIsPosition"
  ELSE IF \E k \in DOMAIN o.den : o.den[k][2] # DomDenumberize(d, o.den[k][1]) THEN "DenumberizeInvertsNumberize"
  ELSE IF \E k \in DOMAIN o.con : o.con[k][2] # DomContains(d, o.con[k][1]) THEN "ContainsAgrees"
  ELSE "ok"

Verdict(c) ==
  IF c.k = "dom" THEN DomClause(c)
  ELSE IF c.k = "pair" THEN
     (IF c.out # "ok" THEN "Raised"
      ELSE IF c.eq # DomEq(c.d1, c.d2) \/ c.ne # ~DomEq(c.d1, c.d2) THEN "DomainEqualityByContent" ELSE "ok")
  ELSE IF c.k = "fac" THEN
     (IF (c.out = "ok") # FacAccepts(c.doms, c.wshape) THEN "AcceptsExactlyRightShape"
      ELSE IF c.out = "ok" /\ c.arity # Len(c.doms) THEN "FactorArity"
      ELSE "ok")
  ELSE IF c.k = "apply" THEN
     (IF c.out # "ok" THEN "Raised"
      ELSE IF \E k \in DOMAIN c.app : c.app[k][2] # FacApply(c.doms, c.w, c.app[k][1]) THEN "ApplyIsWeightAtNumberizedPosition"
      ELSE "ok")
  ELSE IF c.k = "faceq" THEN
     (IF c.out # "ok" THEN "Raised"
      ELSE IF c.eq # FacEq(c.f1, c.f2) THEN "FactorEqualityByDomainsAndWeights" ELSE "ok")
  ELSE IF c.k = "shape" THEN
     (IF c.out # "ok" THEN "Raised"
      ELSE IF c.shape # FacShape(c.doms) THEN "ShapeIsDomainSizes" ELSE "ok")
  ELSE "UnknownCase"

Judge == LET c == Cases[tid] IN PrintT(ToJson([gtid |-> c.gtid, v |-> Verdict(c), tags |-> c.tag]))
=============================================================================
