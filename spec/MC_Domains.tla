----------------------------- MODULE MC_Domains -----------------------------
(* Spec as enumerator for C20: every finite domain over a 3-value universe    *)
(* (every size 0..3 in every order), every range domain 0..3, every pair for  *)
(* equality, and every factor over <= 2 domains with right and wrong weight   *)
(* shapes.  R3: numberize/denumberize are mutually inverse bijections in the  *)
(* model.                                                                    *)
EXTENDS Domains
VARIABLE c
CONSTANT WithBind
U == {1, 2, 3}
Finite == { [cls |-> "finite", vals |-> s] : s \in { x \in BSeqsUpTo(U, 3) : BNoDup(x) } }
Ranges == { [cls |-> "range", vals |-> [i \in 1..n |-> i - 1]] : n \in 0..3 }
Doms == Finite \cup Ranges
SmallDoms == { d \in Doms : d.cls = "range" \/ d.vals \in {<<>>, <<1>>, <<2, 1>>, <<1, 2, 3>>} }
Shapes(doms) == LET s == FacShape(doms) IN
   {s} \cup { [s EXCEPT ![i] = @ + 1] : i \in DOMAIN s } \cup { [s EXCEPT ![i] = @ - 1] : i \in { j \in DOMAIN s : s[j] > 0 } }
       \cup { Reverse(s), s \o <<1>>, <<1>> \o s, <<BNumel(s)>> } \cup (IF Len(s) > 0 THEN {Tail(s)} ELSE {})
\* bindings: every edge-label type over {A, B} up to arity 3 (repeated node labels included), A and B bound to two
\* of four domains (two of equal size but different content), every tuple of factor domains of arity 0..3
BindDoms == { [cls |-> "range", vals |-> <<0, 1>>], [cls |-> "finite", vals |-> <<1, 2>>], [cls |-> "finite", vals |-> <<2, 1>>],
              [cls |-> "range", vals |-> <<0, 1, 2>>] }
FdFor(ty) == { f \in BSeqsUpTo(BindDoms, 3) : Len(f) \in {Len(ty), Len(ty) + 1} \/ (Len(ty) > 0 /\ Len(f) = Len(ty) - 1) }
BindCases == UNION { { [k |-> "bind", type |-> ty, a |-> da, b |-> db, fdoms |-> fd] : da \in BindDoms, db \in BindDoms, fd \in FdFor(ty) } :
                        ty \in BSeqsUpTo({"A", "B"}, 3) }
Init == \/ \E d \in Doms : c = [k |-> "dom", d |-> d]
        \/ (WithBind /\ c \in { x \in BindCases : x.a # x.b \/ x.a.cls = "range" })
        \/ \E d1, d2 \in Doms : c = [k |-> "pair", d1 |-> d1, d2 |-> d2]
        \/ \E ds \in BSeqsUpTo(SmallDoms, 2) : \E sh \in Shapes(ds) :
              c = [k |-> "fac", doms |-> ds, wshape |-> sh]
Next == UNCHANGED c
NumberingIsBijection == c.k = "dom" =>
   /\ \A i \in 0..(DomSize(c.d) - 1) : DomNumberize(c.d, DomDenumberize(c.d, i)) = i
   /\ \A v \in BSeqSet(c.d.vals) : DomDenumberize(c.d, DomNumberize(c.d, v)) = v /\ DomNumberize(c.d, v) \in 0..(DomSize(c.d) - 1)
Dump == PrintT(ToJson(c))
=============================================================================
