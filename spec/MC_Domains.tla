----------------------------- MODULE MC_Domains -----------------------------
(* Spec as enumerator for C20: every finite domain over a 3-value universe    *)
(* (every size 0..3 in every order), every range domain 0..3, every pair for  *)
(* equality, and every factor over <= 2 domains with right and wrong weight   *)
(* shapes.  R3: numberize/denumberize are mutually inverse bijections in the  *)
(* model.                                                                    *)
EXTENDS Domains
VARIABLE c
U == {1, 2, 3}
Finite == { [cls |-> "finite", vals |-> s] : s \in { x \in BSeqsUpTo(U, 3) : BNoDup(x) } }
Ranges == { [cls |-> "range", vals |-> [i \in 1..n |-> i - 1]] : n \in 0..3 }
Doms == Finite \cup Ranges
SmallDoms == { d \in Doms : d.cls = "range" \/ d.vals \in {<<>>, <<1>>, <<2, 1>>, <<1, 2, 3>>} }
Shapes(doms) == LET s == FacShape(doms) IN
   {s} \cup { [s EXCEPT ![i] = @ + 1] : i \in DOMAIN s } \cup { [s EXCEPT ![i] = @ - 1] : i \in { j \in DOMAIN s : s[j] > 0 } }
       \cup { Reverse(s), s \o <<1>>, <<1>> \o s, <<BNumel(s)>> } \cup (IF Len(s) > 0 THEN {Tail(s)} ELSE {})
Init == \/ \E d \in Doms : c = [k |-> "dom", d |-> d]
        \/ \E d1, d2 \in Doms : c = [k |-> "pair", d1 |-> d1, d2 |-> d2]
        \/ \E ds \in BSeqsUpTo(SmallDoms, 2) : \E sh \in Shapes(ds) :
              c = [k |-> "fac", doms |-> ds, wshape |-> sh]
Next == UNCHANGED c
NumberingIsBijection == c.k = "dom" =>
   /\ \A i \in 0..(DomSize(c.d) - 1) : DomNumberize(c.d, DomDenumberize(c.d, i)) = i
   /\ \A v \in BSeqSet(c.d.vals) : DomDenumberize(c.d, DomNumberize(c.d, v)) = v /\ DomNumberize(c.d, v) \in 0..(DomSize(c.d) - 1)
Dump == PrintT(ToJson(c))
=============================================================================
