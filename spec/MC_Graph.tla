------------------------------ MODULE MC_Graph ------------------------------
(* Bounded instance of the Graph part of the heap: two handles g1, g2 (g2     *)
(* comes into being by copy() or Graph()), every mutator with every argument  *)
(* of a small universe -- including the calls that must fail.                 *)
(* `last` records the call (hidden by VIEW); DumpT prints every transition    *)
(* for the replay driver (R1); the invariants are the R3 design-level check   *)
(* that the descriptive model itself satisfies the normative clauses.         *)
EXTENDS Graphs
CONSTANTS Depth, Rich, Interp     \* Interp: the handles are FactorGraphs (domains, factors, weights)
VARIABLES s, last

NA == [id |-> "x", l |-> "A"]   NB == [id |-> "x", l |-> "B"]
NY == [id |-> "y", l |-> "A"]   NI == [id |-> "i1", l |-> "B"]
NodeVals == IF Rich THEN {NA, NB, NY, NI} ELSE {NA, NB, NY}

La  == [name |-> "a", type |-> <<"A">>, t |-> TRUE]
La2 == [name |-> "a", type |-> <<"B">>, t |-> TRUE]       \* same name, other type
La3 == [name |-> "a", type |-> <<"A">>, t |-> FALSE]      \* same name, nonterminal
Lb  == [name |-> "b", type |-> <<"A", "A">>, t |-> TRUE]
Ln  == [name |-> "n", type |-> <<>>, t |-> FALSE]
Lc  == [name |-> "c", type |-> <<"A", "B">>, t |-> TRUE]
LabelVals == IF Rich THEN {La, La2, La3, Lb, Ln, Lc} ELSE {La, La2, Lb, Ln}

AttsFor(lab) == { a \in [1..Len(lab.type) -> NodeVals] : \A i \in 1..Len(lab.type) : a[i].l = lab.type[i] }
EdgeIds == {"e", "f"}
EdgeVals == UNION { { [id |-> i, lab |-> lab, att |-> a] : i \in EdgeIds, a \in AttsFor(lab) } : lab \in LabelVals }
ExtSeqs == { x \in BSeqsUpTo(NodeVals, 2) : BNoDup(x) } 

Handles == {"g1", "g2"}
PlainCalls ==
       { [op |-> "add_node", h |-> h, n |-> n] : h \in Handles, n \in NodeVals }
  \cup { [op |-> "remove_node", h |-> h, n |-> n] : h \in Handles, n \in NodeVals }
  \cup { [op |-> "add_edge", h |-> h, e |-> e] : h \in Handles, e \in EdgeVals }
  \cup { [op |-> "remove_edge", h |-> h, e |-> e] : h \in Handles, e \in EdgeVals }
  \cup { [op |-> "set_ext", h |-> h, x |-> x] : h \in Handles, x \in ExtSeqs }
  \cup { [op |-> "copy", h |-> h] : h \in Handles }      \* the OTHER handle := copy of h
  \cup { [op |-> "new", h |-> "g2"] }                     \* g2 := Graph() / FactorGraph()
D2 == [cls |-> "range", size |-> 2, vals |-> <<0, 1>>]
D3 == [cls |-> "range", size |-> 3, vals |-> <<0, 1, 2>>]
D0 == [cls |-> "range", size |-> 0, vals |-> <<>>]          \* the EMPTY domain binds a node label like any other
F2 == [doms |-> <<D2>>, shape |-> <<2>>, w |-> <<1, 2>>]
F3 == [doms |-> <<D3>>, shape |-> <<3>>, w |-> <<1, 2, 3>>]
F22 == [doms |-> <<D2, D2>>, shape |-> <<2, 2>>, w |-> <<1, 2, 3, 4>>]
\* FactorGraph handles: a reduced graph alphabet plus the interpretation calls
InterpCalls ==
       { [op |-> "add_edge", h |-> h, e |-> e] : h \in Handles, e \in { x \in EdgeVals : x.id = "e" /\ x.lab \in {La, Lb} /\ \A i \in DOMAIN x.att : x.att[i] = NA } }
  \cup { [op |-> "copy", h |-> h] : h \in Handles } \cup { [op |-> "new", h |-> "g2"] }
  \cup { [op |-> "from_graph", h |-> h] : h \in Handles }          \* the OTHER handle := FactorGraph.from_graph(h)
  \cup { [op |-> "set_ext", h |-> h, x |-> x] : h \in Handles, x \in {<<>>, <<NA>>, <<NA, NY>>} }
  \cup { [op |-> "add_domain", h |-> h, nl |-> nl, dom |-> d] : h \in Handles, nl \in {"A", "B"}, d \in {D0, D2, D3} }
  \cup { [op |-> "add_factor", h |-> h, el |-> l, fac |-> f] : h \in Handles, l \in {La, La2, Lb}, f \in {F2, F3, F22} }
  \cup { [op |-> "set_weights", h |-> h, name |-> "a", w |-> w] : h \in Handles, w \in {<<7, 8>>, <<7, 8, 9>>} }
Calls == IF Interp THEN InterpCalls ELSE PlainCalls

Apply(st, c) == HeapApply(st, c)

Init == s = [g1 |-> IF Interp THEN GEmptyF ELSE GEmpty, g2 |-> NoObj] /\ last = [op |-> "init"]
Next == \E c \in Calls : LET r == Apply(s, c) IN
          /\ r.out # "skip"
          /\ s' = r.s
          /\ last' = [call |-> c, out |-> r.out]
View == s
Bound == TLCGet("level") <= Depth
DumpT == PrintT(ToJson([lvl |-> TLCGet("level"), pre |-> s, act |-> last', post |-> s']))

\* R3: does today's design (the descriptive model) satisfy the property at design level?
ModelWF == \A h \in Handles : ObjWFClause(s[h]) = "ok"
ModelFailureAtomic == [][last'.out = "raise" => s' = s]_<<s, last>>
=============================================================================
