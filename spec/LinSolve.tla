------------------------------ MODULE LinSolve ------------------------------
(* Least solutions of x = A x + b over the exact carriers (C09).              *)
(* A is an n x n matrix (flat row-major), b a vector of length n (or n x m).  *)
EXTENDS Semiring

LsA(A, n, i, j) == A[(i - 1) * n + j]
LsMatVec(sr, A, n, x) == [i \in 1..n |-> FoldLeft(LAMBDA acc, j: SrAdd(sr, acc, SrMul(sr, LsA(A, n, i, j), x[j])), SrZero(sr), BIota(n))]
LsStep(sr, A, n, b, x) == LET y == LsMatVec(sr, A, n, x) IN [i \in 1..n |-> SrAdd(sr, y[i], b[i])]
LsKleene(sr, A, n, b, k) == FoldLeft(LAMBDA x, s: LsStep(sr, A, n, b, x), [i \in 1..n |-> SrZero(sr)], BIota(k))

(* On nat (all non-zero entries >= 1) and on mp (integer log-weights) the sum  *)
(* of A^k b either stabilises within n+1 steps or diverges: an entry that      *)
(* still grows after n+1 steps lies on / upstream of a cycle that keeps         *)
(* pumping (weight >= 1 resp. > 0) and its least solution is the infinite       *)
(* element.  On bool, n+1 steps always suffice.                                *)
RECURSIVE LsInfClosure(_, _, _, _)
LsInfClosure(sr, A, n, S) ==
  LET T == S \cup { i \in 1..n : \E j \in S : LsA(A, n, i, j) # SrZero(sr) } IN
  IF T = S THEN S ELSE LsInfClosure(sr, A, n, T)
LsLeastByIteration(sr, A, n, b) ==
  LET k1 == LsKleene(sr, A, n, b, n + 1)
      k2 == LsKleene(sr, A, n, b, 2 * n + 2)
      grow == LsInfClosure(sr, A, n, { i \in 1..n : k2[i] # k1[i] })
  IN [i \in 1..n |-> IF i \in grow THEN INF ELSE k1[i]]

(* On nat the same least solution is obtained without ever iterating a divergent  *)
(* entry (whose iterates overflow TLC's integers from about 6 unknowns up): x_i is  *)
(* infinite iff i reaches, through non-zero coefficients, a vertex c that either    *)
(* lies on a cycle (every non-zero coefficient is >= 1, so the cycle pumps) and      *)
(* reaches a non-zero entry of b, or carries an infinite b_c, or has an infinite     *)
(* coefficient A[c,j] towards a j whose solution is non-zero (j reaches supp b).     *)
(* What remains is acyclic as far as it matters and is solved by n+1 Kleene steps.   *)
(* R3 (MC_LinSolve): equal to LsLeastByIteration on every system of the bound.       *)
LsReach(sr, A, n) ==
  LET R0 == [u \in 1..n |-> [v \in 1..n |-> (u = v) \/ LsA(A, n, u, v) # SrZero(sr)]]
  IN FoldLeft(LAMBDA R, k: [u \in 1..n |-> [v \in 1..n |-> R[u][v] \/ (R[u][k] /\ R[k][v])]], R0, BIota(n))
LsLeastNat(A, n, b) ==
  LET R == LsReach("nat", A, n)
      live(j) == \E l \in 1..n : R[j][l] /\ b[l] # 0
      oncycle(c) == \E j \in 1..n : LsA(A, n, c, j) # 0 /\ R[j][c]
      src(c) == \/ oncycle(c) /\ live(c)
                \/ b[c] = INF
                \/ \E j \in 1..n : LsA(A, n, c, j) = INF /\ live(j)
      inf == { i \in 1..n : \E c \in 1..n : R[i][c] /\ src(c) }
      A2 == [p \in 1..(n * n) |-> IF (((p - 1) \div n) + 1) \in inf \/ (((p - 1) % n) + 1) \in inf THEN 0 ELSE A[p]]
      b2 == [i \in 1..n |-> IF i \in inf THEN 0 ELSE b[i]]
      k1 == LsKleene("nat", A2, n, b2, n + 1)
  IN [i \in 1..n |-> IF i \in inf THEN INF ELSE k1[i]]
LsLeast(sr, A, n, b) == IF sr = "nat" THEN LsLeastNat(A, n, b) ELSE LsLeastByIteration(sr, A, n, b)

(* Certified contraction on quarters (Real / Log semirings with fractional      *)
(* entries): A4 = 4 A has natural entries with every row sum < 4 (so the         *)
(* infinity-norm of A is < 1, the fixed point is unique, hence least) and the    *)
(* integer vector x satisfies 4 x = A4 x + b4 exactly.                           *)
LsCertified(A4, n, b4, x) ==
  /\ \A i \in 1..n : BSeqSum([j \in 1..n |-> LsA(A4, n, i, j)]) < 4
  /\ \A i \in 1..n : 4 * x[i] = BSeqSum([j \in 1..n |-> LsA(A4, n, i, j) * x[j]]) + b4[i]
LsTranspose(A, n) == [p \in 1..(n * n) |-> LET i == ((p - 1) \div n) + 1  j == ((p - 1) % n) + 1 IN LsA(A, n, j, i)]

(* Near the radius of convergence (Log semiring).  A cycle of weight 1 - 2^-k has the closure 2^k:                        *)
(*       2^k = 1 + (1 - 2^-k) 2^k          (checked in exact integers by MC_Semiring for k <= 30)                          *)
(* so the least solution of  x = a x + 1  with a = 1 - 2^-k is 2^k, whose logarithm is k ln 2.  Log-weights so close to 0 *)
(* (down to the smallest subnormal) are representable although 1 - 2^-k is not representable as a real number beyond the  *)
(* mantissa width.  Observations are in thousandths; ln 2 = 0.693147...                                                    *)
LsKLn2Milli(k) == (k * 693147 + 500) \div 1000
LsNearOneOK(k, obs) == \A i \in DOMAIN obs : obs[i] >= LsKLn2Milli(k) - 3 /\ obs[i] <= LsKLn2Milli(k) + 3
=============================================================================
