------------------------------ MODULE LinSolve ------------------------------
(* Least solutions of x = A x + b over the exact carriers (C09).              *)
(* A is an n x n matrix (flat row-major), b a vector of length n (or n x m).  *)
EXTENDS Semiring

LsA(A, n, i, j) == A[(i - 1) * n + j]
LsMatVec(sr, A, n, x) == [i \in 1..n |-> FoldLeft(LAMBDA acc, j: SrAdd(sr, acc, SrMul(sr, LsA(A, n, i, j), x[j])), SrZero(sr), BIota(n))]
LsStep(sr, A, n, b, x) == LET y == LsMatVec(sr, A, n, x) IN [i \in 1..n |-> SrAdd(sr, y[i], b[i])]
LsKleene(sr, A, n, b, k) == FoldLeft(LAMBDA x, s: LsStep(sr, A, n, b, x), [i \in 1..n |-> SrZero(sr)], BIota(k))

(* On nat (all non-zero entries >= 1) and on mp (integer log-weights) the sum  *)
(* of A^k b either stabilises within n+1 steps or diverges: an entry that      *)
(* still grows after n+1 steps lies on / upstream of a cycle that keeps         *)
(* pumping (weight >= 1 resp. > 0) and its least solution is the infinite       *)
(* element.  On bool, n+1 steps always suffice.                                *)
RECURSIVE LsInfClosure(_, _, _, _)
LsInfClosure(sr, A, n, S) ==
  LET T == S \cup { i \in 1..n : \E j \in S : LsA(A, n, i, j) # SrZero(sr) } IN
  IF T = S THEN S ELSE LsInfClosure(sr, A, n, T)
LsLeast(sr, A, n, b) ==
  LET k1 == LsKleene(sr, A, n, b, n + 1)
      k2 == LsKleene(sr, A, n, b, 2 * n + 2)
      grow == LsInfClosure(sr, A, n, { i \in 1..n : k2[i] # k1[i] })
  IN [i \in 1..n |-> IF i \in grow THEN INF ELSE k1[i]]

(* Certified contraction on quarters (Real / Log semirings with fractional      *)
(* entries): A4 = 4 A has natural entries with every row sum < 4 (so the         *)
(* infinity-norm of A is < 1, the fixed point is unique, hence least) and the    *)
(* integer vector x satisfies 4 x = A4 x + b4 exactly.                           *)
LsCertified(A4, n, b4, x) ==
  /\ \A i \in 1..n : BSeqSum([j \in 1..n |-> LsA(A4, n, i, j)]) < 4
  /\ \A i \in 1..n : 4 * x[i] = BSeqSum([j \in 1..n |-> LsA(A4, n, i, j) * x[j]]) + b4[i]
LsTranspose(A, n) == [p \in 1..(n * n) |-> LET i == ((p - 1) \div n) + 1  j == ((p - 1) % n) + 1 IN LsA(A, n, j, i)]
=============================================================================
