----------------------------- MODULE Trace_Derive -----------------------------
(* Judge for C15.  Case kinds:                                               *)
(*  "lins"   : (generation) print all linearisations of the derivation        *)
(*  "run"    : one linearisation executed with replace_edge on real graphs:   *)
(*             steps <<[pre, post, e, rhs, nmap, emap, out]>>, final graph    *)
(*  "derive" : FGGDerivation.derive() on the same tree: final graph named by  *)
(*             the assignment, totality, weight                               *)
(*  "wrong"  : a replacement of the wrong type                                *)
EXTENDS Derive, Semantics
VARIABLE tid
Cases == JsonDeserialize("cases.json")
Init == tid \in 1..Len(Cases)
Next == UNCHANGED tid

G(p) == [nodes |-> BSeqSet(p.nodes), edges |-> BSeqSet(p.edges), ext |-> p.ext]
StepClause(s) == ReplaceClause(G(s.pre), G(s.post), s.e, G(s.rhs), s.nmap, s.emap, s.out)

\* product of the weights of the rule instances under the instance assignments (nat carrier)
InstWeight(g, d, i, a) ==
  LET r == DvRule(g, d, i) IN
  SrProdSeq("nat", LAMBDA k: IF g.els[r.edges[k].lab].t
                                THEN WeightOf("nat", g, r.edges[k].lab,
                                       BFlat(ShapeOf(g, r.edges[k].lab), [m \in DOMAIN r.edges[k].att |-> a[r.edges[k].att[m]]]))
                                ELSE 1, Len(r.edges))
DerivationWeight(g, d, assts) == SrProdSeq("nat", LAMBDA i: InstWeight(g, d, i, assts[i]), Len(d))

\* derive() returns no edge map: compare edges as bags of (label, attachment)
EKey(e) == [lab |-> e.lab, att |-> e.att]
EdgeBagEq(obs, exp) ==
  /\ Len(obs) = Cardinality(exp)
  /\ \A e \in exp : Cardinality({ i \in DOMAIN obs : EKey(obs[i]) = EKey(e) }) = Cardinality({ f \in exp : EKey(f) = EKey(e) })

Verdict(c) ==
  IF c.kind = "lins" THEN "ok"
  ELSE IF c.kind = "wrong" THEN StepClause(c.step)
  ELSE IF ~DvWellFormed(c.ag, c.d) THEN "GeneratorGaveIllFormedDerivation"
  ELSE IF c.kind = "run" THEN
     LET bad == SelectSeq(c.steps, LAMBDA s: StepClause(s) # "ok") IN
     IF bad # <<>> THEN StepClause(bad[1])
     ELSE IF G(c.final).nodes # DvNodes(c.ag, c.d) \/ G(c.final).edges # DvEdges(c.ag, c.d) THEN "AnyOrderYieldsTheDerivedGraph"
     ELSE "ok"
  ELSE IF c.kind = "derive" THEN
     IF c.out # "ok" THEN "Raised"
     ELSE IF G(c.final).nodes # DvNodes(c.ag, c.d) \/ Len(c.final.nodes) # Cardinality(DvNodes(c.ag, c.d))
             \/ ~EdgeBagEq(c.final.edges, DvEdges(c.ag, c.d)) THEN "DeriveYieldsTheDerivedGraph"
     ELSE IF ~c.total THEN "AssignmentIsTotal"
     ELSE IF c.weight[1] > DerivationWeight(c.ag, c.d, c.assts) \/ DerivationWeight(c.ag, c.d, c.assts) > c.weight[2] THEN "WeightIsProductOfRuleInstances"
     ELSE "ok"
  ELSE IF c.kind = "derive_shared" THEN
     \* the same tree, but identical subderivations are ONE FGGDerivation object used at several positions:
     \* every use is its own rule instance (sizes of the derived graph, totality, weight)
     IF c.out # "ok" THEN "Raised"
     ELSE IF c.nn # Cardinality(DvNodes(c.ag, c.d)) \/ c.ne # Cardinality(DvEdges(c.ag, c.d)) THEN "DeriveYieldsTheDerivedGraph"
     ELSE IF ~c.total THEN "AssignmentIsTotal"
     ELSE IF c.weight[1] > DerivationWeight(c.ag, c.d, c.assts) \/ DerivationWeight(c.ag, c.d, c.assts) > c.weight[2] THEN "WeightIsProductOfRuleInstances"
     ELSE "ok"
  ELSE "UnknownCase"

Lins(c) == IF c.kind = "lins" THEN SetToSeq(DvLinearisations(c.d)) ELSE <<>>
Judge == LET c == Cases[tid] IN PrintT(ToJson([gtid |-> c.gtid, v |-> Verdict(c), tags |-> <<c.kind>>, lins |-> Lins(c)]))
=============================================================================
