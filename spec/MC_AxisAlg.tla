----------------------------- MODULE MC_AxisAlg -----------------------------
(* Spec as enumerator (R1) for the axis algebra: for every typed shape of the *)
(* catalogue (shapes.json, a list of lists of index types) TLC enumerates     *)
(* EVERY pair of axis lists (es, fs) of that shape -- physical axes drawn     *)
(* from K copies per index type, fs either from the same pool (operands that  *)
(* share physical axes, e.g. a tensor and a view of itself) or from a         *)
(* disjoint one -- and dumps each as one JSON line for the driver.            *)
(* R3 on every enumerated list: it is a pattern (injective), every term has   *)
(* the size of its type, and the solution set of the equations es = fs        *)
(* restricted to es is what both patterns back (intersection of supports).    *)
EXTENDS AxisAlg
CONSTANTS K, Shared
VARIABLE c
Shapes == JsonDeserialize("shapes.json")
Lists(sh, off) == AaSeqProduct([i \in DOMAIN sh |-> AaTerms(sh[i], K, off)])
Init == \E s \in DOMAIN Shapes :
          c \in { [s |-> s, es |-> es, fs |-> fs] : es \in Lists(Shapes[s], 0), fs \in Lists(Shapes[s], IF Shared THEN 0 ELSE 1000) }
Next == UNCHANGED c

TermsHaveTheSizeOfTheirType == \A i \in DOMAIN c.es : AxNumel(c.es[i]) = TyNumel(Shapes[c.s][i]) /\ AxNumel(c.fs[i]) = TyNumel(Shapes[c.s][i])
TypedListsArePatterns == AaInjective(c.es) /\ AaInjective(c.fs)
\* with disjoint pools the solutions of es = fs correspond one-to-one to the common virtual index tuples
SolutionsAreTheCommonSupport ==
  Shared \/ LET X == AaFreeSeq(c.es) \cup AaFreeSeq(c.fs)
                sol == { env \in AaEnvs(X) : AaVal(c.es, env) = AaVal(c.fs, env) }
                se == { AaVal(c.es, env) : env \in AaEnvs(AaFreeSeq(c.es)) }
                sf == { AaVal(c.fs, env) : env \in AaEnvs(AaFreeSeq(c.fs)) }
            IN Cardinality(sol) = Cardinality(se \cap sf)
\* R3 for the algorithm: the transcription of Axis.unify (AxisAlg!AuUnify) satisfies the normative clause on every pair
ModelUnifierIsMostGeneral == UnifyClause(AuAsCase(c.es, c.fs)) = "ok"
ModelGeneralisationInstantiates == AntiunifyClause(AnAsCase(c.es, c.fs)) = "ok"
Dump == PrintT(ToJson(c))
=============================================================================
