------------------------------- MODULE Tarjan -------------------------------
(* Tarjan's algorithm as fggs.utils.scc runs it, as a state machine (growth,   *)
(* C19).  The definitional module Scc says WHAT scc must return; this module    *)
(* says HOW today's code gets there, one action per step of the depth-first     *)
(* search, with the recursion made explicit as a sequence of frames.            *)
(*                                                                             *)
(*   input   g = [n, adj, order]: vertices 1..n, adj[v] the successors of v in   *)
(*           the iteration order of the adjacency mapping, order the iteration    *)
(*           order of the mapping's keys (the order in which roots are tried)     *)
(*   state   [idx, low, stk, frames, root, comps, cnt, visits]                    *)
(*           idx[v] = -1 while v is unvisited; frames = <<[v, i]>> the active      *)
(*           calls visit(v), i the position in adj[v] looked at next;              *)
(*           visits = the order in which visit() was entered (observable from      *)
(*           outside: it is the order in which the code reads g[v])                *)
(*   steps   Root (try the next key), Descend (call visit(w)), Skip (w finished   *)
(*           or on the stack: lowlink update), Return (pop the component if v is   *)
(*           a root of one, hand lowlink to the caller)                            *)
(*                                                                             *)
(* R3 (MC_Tarjan): for every digraph in the bound and every iteration order the   *)
(* machine terminates with SccVerdict = "ok" (refinement of Scc), components      *)
(* already emitted are SCCs in dependency order at every moment, and the classic   *)
(* stack invariants hold.  Binding: the driver observes the entry order of         *)
(* visit() through an instrumented mapping and the returned list; TLC replays the  *)
(* machine on the same input and reports any difference as DRIFT of this           *)
(* descriptive model (never a verdict: another correct algorithm is allowed).      *)
EXTENDS Scc

TjInit(g) == [idx |-> [v \in 1..g.n |-> -1], low |-> [v \in 1..g.n |-> -1], stk |-> <<>>, frames |-> <<>>,
              root |-> 1, comps |-> <<>>, cnt |-> 0, visits |-> <<>>]

TjDone(g, s) == s.frames = <<>> /\ s.root > g.n
TjOnStack(s, v) == BHas(s.stk, v)

\* enter visit(v)
TjEnter(s, v) == [s EXCEPT !.idx[v] = s.cnt, !.low[v] = s.cnt, !.cnt = s.cnt + 1, !.stk = Append(s.stk, v),
                           !.frames = Append(s.frames, [v |-> v, i |-> 1]), !.visits = Append(s.visits, v)]

\* the component popped when v is a root: the stack from v's position to the top, top first
TjPopComp(s, v) == LET p == BIndexOf(s.stk, v) IN
   [comp |-> [k \in 1..(Len(s.stk) - p + 1) |-> s.stk[Len(s.stk) - k + 1]], rest |-> SubSeq(s.stk, 1, p - 1)]

TjKind(g, s) ==
  IF TjDone(g, s) THEN "Done"
  ELSE IF s.frames = <<>> THEN "Root"
  ELSE LET f == s.frames[Len(s.frames)] IN
       IF f.i > Len(g.adj[f.v]) THEN "Return"
       ELSE IF s.idx[g.adj[f.v][f.i]] = -1 THEN "Descend" ELSE "Skip"

\* the step function (the machine is deterministic once g is fixed)
TjStep(g, s) ==
  LET kind == TjKind(g, s) IN
  IF kind = "Done" THEN s
  ELSE IF kind = "Root" THEN
       LET v == g.order[s.root] IN
       IF s.idx[v] = -1 THEN TjEnter([s EXCEPT !.root = s.root + 1], v) ELSE [s EXCEPT !.root = s.root + 1]
  ELSE LET d == Len(s.frames) f == s.frames[d] v == f.v IN
       IF kind = "Descend" THEN TjEnter(s, g.adj[v][f.i])
       ELSE IF kind = "Skip" THEN
            LET w == g.adj[v][f.i] IN
            [s EXCEPT !.low[v] = IF TjOnStack(s, w) THEN BMin(s.low[v], s.idx[w]) ELSE s.low[v],
                      !.frames[d].i = f.i + 1]
       ELSE \* Return
            LET s1 == IF s.low[v] = s.idx[v]
                      THEN LET pc == TjPopComp(s, v) IN [s EXCEPT !.stk = pc.rest, !.comps = Append(s.comps, pc.comp)]
                      ELSE s
                s2 == [s1 EXCEPT !.frames = SubSeq(s.frames, 1, d - 1)]
            IN IF d = 1 THEN s2
               ELSE LET u == s.frames[d - 1].v IN
                    [s2 EXCEPT !.low[u] = BMin(s.low[u], s.low[v]), !.frames[d - 1].i = s.frames[d - 1].i + 1]

\* number of steps to termination is at most n roots + (visit + return) per vertex + one per edge
TjBound(g) == 3 * g.n + BSeqSum([v \in 1..g.n |-> Len(g.adj[v])]) + 1
TjRun(g) == FoldLeft(LAMBDA s, k: IF TjDone(g, s) THEN s ELSE TjStep(g, s), TjInit(g), BIota(TjBound(g)))

(* Invariants of the machine (R3).                                             *)
TjEmitted(s) == UNION { BSeqSet(s.comps[i]) : i \in DOMAIN s.comps }
TjStackIsVisitedMinusEmitted(g, s) ==
   BSeqSet(s.stk) = { v \in 1..g.n : s.idx[v] # -1 } \ TjEmitted(s) /\ BNoDup(s.stk)
TjStackOrderedByIndex(s) == \A i, j \in DOMAIN s.stk : i < j => s.idx[s.stk[i]] < s.idx[s.stk[j]]
TjLowBelowIdx(g, s) == \A v \in 1..g.n : s.idx[v] # -1 => (s.low[v] <= s.idx[v] /\ s.low[v] >= 0)
TjFramesOnStack(s) == \A k \in DOMAIN s.frames : TjOnStack(s, s.frames[k].v)
TjFramesArePath(g, s) == \A k \in 1..(Len(s.frames) - 1) :
   s.frames[k].i <= Len(g.adj[s.frames[k].v]) /\ g.adj[s.frames[k].v][s.frames[k].i] = s.frames[k + 1].v
\* what has been emitted so far is final: exact components, none with an edge into a later one or into the stack
TjEmittedAreComponents(g, s) ==
   /\ { BSeqSet(s.comps[i]) : i \in DOMAIN s.comps } \subseteq SccComponents(g)
   /\ SccDependencyOrdered(g, s.comps)
   /\ \A i \in DOMAIN s.comps : \A u \in BSeqSet(s.comps[i]) : \A w \in BSeqSet(g.adj[u]) : w \in TjEmitted(s)
TjFinalOK(g, s) == TjDone(g, s) => (SccVerdict(g, s.comps) = "ok" /\ s.stk = <<>> /\ Len(s.visits) = g.n)

(* Comparison of an observed run with the machine (descriptive: drift only).    *)
TjDrift(g, visits, comps) ==
  LET s == TjRun(g) IN
  IF ~TjDone(g, s) THEN "ModelDidNotTerminate"
  ELSE IF visits # <<>> /\ visits # s.visits THEN "VisitOrder"
  ELSE IF comps # s.comps THEN "EmissionOrder"
  ELSE "none"
=============================================================================
