--------------------------- MODULE Trace_Recursive ---------------------------
(* Batch judge for C02 (recursive grammars).                                  *)
(*  c.ag   : grammar; for the real/log semirings with weights on the dyadic    *)
(*           grid c.ag.wfx (scaled by 1024) and a candidate c.ag.cert          *)
(*  c.runs : <<[sr ("fx" | "bool" | "mp"), method, kmax, tolu (tol in 1/1024,  *)
(*             rounded up), out, warned, res |-> [X |-> flat <<lo, hi>>]]>>    *)
(* A certificate is only a hint: TLC proves (or fails to prove) that it is the *)
(* least fixed point; an unproved one yields the weaker lower-bound clause.    *)
EXTENDS Semantics
VARIABLE tid
Cases == JsonDeserialize("cases.json")
Init == tid \in 1..Len(Cases)
Next == UNCHANGED tid

CertFun(g) == [X \in Nts(g) |-> [ea \in ExtAssts(g, X) |-> g.cert[X][BFlat(ShapeOf(g, X), ea)]]]
HasFx(c) == \E i \in DOMAIN c.runs : c.runs[i].sr = "fx"

\* tolerance in grid units: tol / (1 - q) rounded up, plus one unit for float rounding
Eps(tolu, q) == ((tolu * FXS) \div (FXS - q)) + 2

Within(g, X, flat, z, eps) ==
  /\ Len(flat) = BNumel(ShapeOf(g, X))
  /\ \A ea \in ExtAssts(g, X) : LET o == flat[BFlat(ShapeOf(g, X), ea)] IN o[1] - eps <= z[ea] /\ z[ea] <= o[2] + eps
AtLeast(g, X, flat, z, eps) ==
  /\ Len(flat) = BNumel(ShapeOf(g, X))
  /\ \A ea \in ExtAssts(g, X) : z[ea] <= flat[BFlat(ShapeOf(g, X), ea)][2] + eps

RunClause(c, r, certified, q, cert, lo, mu) ==
  IF r.method = "linear" /\ ~LinearlyRecursive(c.ag) THEN
       (IF r.out = "raise:ValueError" THEN "ok" ELSE "LinearRaisesValueErrorOnNonLinearGrammar")
  ELSE IF r.out # "ok" THEN "Raised"
  ELSE IF DOMAIN r.res # Nts(c.ag) THEN "EveryNonterminalHasAValue"
  ELSE IF r.warned THEN "ok"              \* the method said it did not converge: nothing is claimed
  ELSE IF r.sr = "fx" THEN
       IF certified THEN
            (IF \E X \in Nts(c.ag) : ~Within(c.ag, X, r.res[X], cert[X], Eps(r.tolu, q)) THEN "LeastFixedPointOrWarning" ELSE "ok")
       ELSE (IF \E X \in Nts(c.ag) : ~AtLeast(c.ag, X, r.res[X], lo[X], Eps(r.tolu, 512) + 8) THEN "NotBelowTheLowerBound" ELSE "ok")
  ELSE IF ~mu[r.sr].stable THEN "ok"      \* Kleene did not stabilise within the bound: uncertified
  ELSE IF \E X \in Nts(c.ag) : ~TensorEq(c.ag, X, r.res[X], mu[r.sr].x[X]) THEN "LeastFixedPointOrWarning"
  ELSE "ok"

Verdict(c) ==
  LET fx == HasFx(c)
      cert == IF fx THEN CertFun(c.ag) ELSE <<>>
      q == IF fx THEN CertQ(c.ag, cert) ELSE 0
      certified == fx /\ CertExact(c.ag, cert) /\ q < FXS
      lo == IF fx /\ ~certified THEN LowerBound(c.ag, 30) ELSE <<>>
      srs == { c.runs[i].sr : i \in DOMAIN c.runs } \ {"fx"}
      mu == [sr \in srs |-> Lfp(sr, c.ag, 80)]
      bad == SelectSeq(c.runs, LAMBDA r: RunClause(c, r, certified, q, cert, lo, mu) # "ok")
  IN [v |-> IF bad = <<>> THEN "ok" ELSE RunClause(c, bad[1], certified, q, cert, lo, mu),
      tags |-> IF bad = <<>> THEN <<>> ELSE bad[1].tag,
      certified |-> certified, q |-> q]
\* structural signature used by recorded findings (spec-evaluated)
HasEdgelessNode(g) == \E i \in DOMAIN g.rules : LET r == g.rules[i] IN
   \E j \in DOMAIN r.nodes : \A k \in DOMAIN r.edges : ~BHas(r.edges[k].att, j)
\* some edge of a rule with >= 2 edges shares no node with the other edges (nullary edges included)
HasDisjointEdge(g) == \E i \in DOMAIN g.rules : LET r == g.rules[i] IN
   Len(r.edges) >= 2 /\ \E k \in DOMAIN r.edges :
      BSeqSet(r.edges[k].att) \cap UNION { BSeqSet(r.edges[m].att) : m \in DOMAIN r.edges \ {k} } = {}
HasRepeatedAttachment(g) == \E i \in DOMAIN g.rules : \E k \in DOMAIN g.rules[i].edges : ~BNoDup(g.rules[i].edges[k].att)
SigTags(c) == (IF HasEdgelessNode(c.ag) THEN <<"edgeless_node">> ELSE <<>>) \o (IF HasDisjointEdge(c.ag) THEN <<"edge_disjoint_from_others">> ELSE <<>>)
              \o (IF HasRepeatedAttachment(c.ag) THEN <<"repeated_attachment">> ELSE <<>>)
Judge == LET c == Cases[tid] r == Verdict(c) IN
         PrintT(ToJson([gtid |-> c.gtid, v |-> r.v, tags |-> r.tags \o SigTags(c), certified |-> r.certified, q |-> r.q]))
=============================================================================
