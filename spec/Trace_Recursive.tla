--------------------------- MODULE Trace_Recursive ---------------------------
(* Batch judge for C02 (recursive grammars).                                  *)
(*  c.ag   : grammar; for the real/log semirings with weights on the dyadic    *)
(*           grid c.ag.wfx (scaled by 1024) and a candidate c.ag.cert          *)
(*  c.runs : <<[sr ("fx" | "bool" | "mp"), method, kmax, tolu (tol in 1/1024,  *)
(*             rounded up), out, warned, res |-> [X |-> flat <<lo, hi>>]]>>    *)
(* A certificate is only a hint: TLC proves (or fails to prove) that it is the *)
(* least fixed point; an unproved one yields the weaker lower-bound clause.    *)
EXTENDS Semantics
VARIABLE tid
Cases == JsonDeserialize("cases.json")
Init == tid \in 1..Len(Cases)
Next == UNCHANGED tid

CertFun(g) == [X \in Nts(g) |-> [ea \in ExtAssts(g, X) |-> g.cert[X][BFlat(ShapeOf(g, X), ea)]]]
HasFx(c) == \E i \in DOMAIN c.runs : c.runs[i].sr = "fx"

\* tolerance in grid units: tol / (1 - q) rounded up, plus one unit for float rounding
Eps(tolu, q) == ((tolu * FXS) \div (FXS - q)) + 2

Within(g, X, flat, z, eps) ==
  /\ Len(flat) = BNumel(ShapeOf(g, X))
  /\ \A ea \in ExtAssts(g, X) : LET o == flat[BFlat(ShapeOf(g, X), ea)] IN o[1] - eps <= z[ea] /\ z[ea] <= o[2] + eps
AtLeast(g, X, flat, z, eps) ==
  /\ Len(flat) = BNumel(ShapeOf(g, X))
  /\ \A ea \in ExtAssts(g, X) : z[ea] <= flat[BFlat(ShapeOf(g, X), ea)][2] + eps

\* No proved contraction (q >= 1: critical or slowly converging grammars).  "An error that vanishes as tol does" gives no
\* bound at a fixed tol, so only what every method guarantees at ANY tol is demanded, and only when the certificate is at
\* least A fixed point (then the least one is finite): all three methods approach the least fixed point from below through
\* pre-fixed points (Kleene iterates; Newton iterates, Esparza-Kiefer-Luttenberger), so the result r satisfies
\*   F(0) <= r,   r <= F(r),   r <= any fixed point,      up to rounding.
HiFun(g, r) == [X \in Nts(g) |-> [ea \in ExtAssts(g, X) |-> r.res[X][BFlat(ShapeOf(g, X), ea)][2]]]
Slack(v) == 2 + (v \div 1000)
WeakClause(c, r, cert, k1) ==
  LET g == c.ag IN
  IF ~CertExact(g, cert) THEN "ok"
  ELSE IF \E X \in Nts(g) : Len(r.res[X]) # BNumel(ShapeOf(g, X)) THEN "EveryNonterminalHasAValue"
  ELSE LET hi == HiFun(g, r)
           up == StepF("fxu", g, hi)
           lowOf(X, ea) == r.res[X][BFlat(ShapeOf(g, X), ea)][1] IN
       IF \E X \in Nts(g) : \E ea \in ExtAssts(g, X) : hi[X][ea] + Slack(k1[X][ea]) < k1[X][ea] THEN "AtLeastTheFirstKleeneIterate"
       ELSE IF \E X \in Nts(g) : \E ea \in ExtAssts(g, X) : lowOf(X, ea) > up[X][ea] + Slack(up[X][ea]) THEN "NeverAboveItsOwnImage"
       ELSE IF \E X \in Nts(g) : \E ea \in ExtAssts(g, X) : lowOf(X, ea) > cert[X][ea] + Slack(cert[X][ea]) THEN "NeverAboveAFixedPoint"
       ELSE "ok"

\* Fine residuals (float64 runs with tol <= 1e-5, also tol = 0): r.resid[X] = observed value minus the certified least fixed
\* point, in units of 2^-40 (the certificate is a dyadic number, the subtraction of two nearby doubles is exact), r.tolf = tol
\* in the same units.  Banach a-posteriori bound tol / (1 - q), plus 4096 units (3.7e-9) for accumulated rounding:
\*     |resid| <= a + a q / (1 - q),   a = tolf + 4096
FineAllow(tolf, q) == LET a == tolf + 4096 IN a + ((a \div (FXS - q)) + 1) * q
FineOK(c, r, q) ==
  "resid" \notin DOMAIN r \/ r.tolf < 0 \/
  \A X \in DOMAIN r.resid : \A i \in DOMAIN r.resid[X] : BAbs(r.resid[X][i]) <= FineAllow(r.tolf, q)

RunClause(c, r, certified, q, cert, lo, mu) ==
  IF r.method = "linear" /\ ~LinearlyRecursive(c.ag) THEN
       (IF r.out = "raise:ValueError" THEN "ok" ELSE "LinearRaisesValueErrorOnNonLinearGrammar")
  ELSE IF r.out # "ok" THEN "Raised"
  ELSE IF DOMAIN r.res # Nts(c.ag) THEN "EveryNonterminalHasAValue"
  ELSE IF r.warned THEN "ok"              \* the method said it did not converge: nothing is claimed
  ELSE IF r.sr = "fx" THEN
       IF certified THEN
            (IF \E X \in Nts(c.ag) : ~Within(c.ag, X, r.res[X], cert[X], Eps(r.tolu, q)) THEN "LeastFixedPointOrWarning"
             ELSE IF ~FineOK(c, r, q) THEN "ErrorVanishesAsTolDoes" ELSE "ok")
       ELSE WeakClause(c, r, cert, lo)
  ELSE IF ~mu[r.sr].stable THEN "ok"      \* Kleene did not stabilise within the bound: uncertified
  ELSE IF \E X \in Nts(c.ag) : ~TensorEq(c.ag, X, r.res[X], mu[r.sr].x[X]) THEN "LeastFixedPointOrWarning"
  ELSE "ok"

Verdict(c) ==
  LET fx == HasFx(c)
      cert == IF fx THEN CertFun(c.ag) ELSE <<>>
      q == IF fx THEN CertQ(c.ag, cert) ELSE 0
      certified == fx /\ CertExact(c.ag, cert) /\ q < FXS
      lo == IF fx /\ ~certified THEN LowerBound(c.ag, 1) ELSE <<>>        \* F(0), products rounded down
      srs == { c.runs[i].sr : i \in DOMAIN c.runs } \ {"fx"}
      mu == [sr \in srs |-> Lfp(sr, c.ag, 80)]
      bad == SelectSeq(c.runs, LAMBDA r: RunClause(c, r, certified, q, cert, lo, mu) # "ok")
  IN [v |-> IF bad = <<>> THEN "ok" ELSE RunClause(c, bad[1], certified, q, cert, lo, mu),
      tags |-> IF bad = <<>> THEN <<>> ELSE bad[1].tag,
      certified |-> certified, q |-> q]
\* structural signature used by recorded findings (spec-evaluated)
HasEdgelessNode(g) == \E i \in DOMAIN g.rules : LET r == g.rules[i] IN
   \E j \in DOMAIN r.nodes : \A k \in DOMAIN r.edges : ~BHas(r.edges[k].att, j)
\* some edge of a rule with >= 2 edges shares no node with the other edges (nullary edges included)
HasDisjointEdge(g) == \E i \in DOMAIN g.rules : LET r == g.rules[i] IN
   Len(r.edges) >= 2 /\ \E k \in DOMAIN r.edges :
      BSeqSet(r.edges[k].att) \cap UNION { BSeqSet(r.edges[m].att) : m \in DOMAIN r.edges \ {k} } = {}
HasRepeatedAttachment(g) == \E i \in DOMAIN g.rules : \E k \in DOMAIN g.rules[i].edges : ~BNoDup(g.rules[i].edges[k].att)
SigTags(c) == (IF HasEdgelessNode(c.ag) THEN <<"edgeless_node">> ELSE <<>>) \o (IF HasDisjointEdge(c.ag) THEN <<"edge_disjoint_from_others">> ELSE <<>>)
              \o (IF HasRepeatedAttachment(c.ag) THEN <<"repeated_attachment">> ELSE <<>>)
Judge == LET c == Cases[tid] r == Verdict(c) IN
         PrintT(ToJson([gtid |-> c.gtid, v |-> r.v, tags |-> r.tags \o SigTags(c), certified |-> r.certified, q |-> r.q]))
=============================================================================
