---------------------------- MODULE Trace_Solver ----------------------------
(* Trace validation of the solver driver: each case is the event log of one     *)
(* sum_products call (hook FGGS_VERIF) together with the grammar, whether the    *)
(* caller saw a warning, and the exception if any.                              *)
EXTENDS Solver
VARIABLE tid
Cases == JsonDeserialize("cases.json")
Init == tid \in 1..Len(Cases)
Next == UNCHANGED tid
Verdict(c) ==
  LET r == SvRun(c.ag, c.trace)
      warnedInLog == \E i \in DOMAIN c.trace : (c.trace[i][1] = "fp_end" /\ c.trace[i][3]) \/ (c.trace[i][1] = "nt_end" /\ c.trace[i][2])
      complete == Len(c.trace) > 0 /\ c.trace[Len(c.trace)][1] = "end"
  IN IF ~r.ok THEN [v |-> r.clause, pos |-> r.pos, drift |-> r.s.drift]
     ELSE IF c.out = "ok" /\ ~complete THEN [v |-> "TraceEndsWithEnd", pos |-> Len(c.trace), drift |-> r.s.drift]
     ELSE IF c.out = "ok" /\ c.warned # warnedInLog THEN [v |-> "CallerSeesTheWarning", pos |-> Len(c.trace), drift |-> r.s.drift]
     ELSE [v |-> "ok", pos |-> Len(c.trace), drift |-> r.s.drift]
Judge == LET c == Cases[tid] r == Verdict(c) IN PrintT(ToJson([gtid |-> c.gtid, v |-> r.v, tags |-> c.tag, pos |-> r.pos, drift |-> r.drift]))
=============================================================================
