---------------------------- MODULE Trace_Solver ----------------------------
(* Trace validation of the solver driver: each case is the event log of one     *)
(* sum_products call (hook FGGS_VERIF) together with the grammar, whether the    *)
(* caller saw a warning, and the exception if any.                              *)
EXTENDS Solver
VARIABLE tid
Cases == JsonDeserialize("cases.json")
Init == tid \in 1..Len(Cases)
Next == UNCHANGED tid
\* Clauses that restate the property (C02: an exhausted budget is reported; C19: every nonterminal is solved, after those
\* it depends on) GATE.  Clauses about the shape of the event log itself (a counter that skips, an event outside its
\* bracket, a component that is a union of SCCs, a log cut short) only say that the code no longer follows this
\* descriptive machine -- e.g. after a refactoring of the loops that moved or dropped a hook -- and are reported as drift.
Normative == {"EveryNonterminalSolvedOnce", "DependenciesSolvedFirst", "CallerSeesTheWarning"}
Verdict(c) ==
  LET r == SvRun(c.ag, c.trace)
      warnedInLog == \E i \in DOMAIN c.trace : (c.trace[i][1] = "fp_end" /\ c.trace[i][3]) \/ (c.trace[i][1] = "nt_end" /\ c.trace[i][2])
      complete == Len(c.trace) > 0 /\ c.trace[Len(c.trace)][1] = "end"
      raw == IF ~r.ok THEN [v |-> r.clause, pos |-> r.pos]
             ELSE IF c.out = "ok" /\ ~complete THEN [v |-> "TraceEndsWithEnd", pos |-> Len(c.trace)]
             \* the log says an iterative method ran out of budget, yet the caller saw no warning (a spurious warning is allowed)
             ELSE IF c.out = "ok" /\ warnedInLog /\ ~c.warned THEN [v |-> "CallerSeesTheWarning", pos |-> Len(c.trace)]
             ELSE [v |-> "ok", pos |-> Len(c.trace)]
  IN IF raw.v = "ok" \/ raw.v \in Normative THEN [v |-> raw.v, pos |-> raw.pos, drift |-> r.s.drift, logdrift |-> "none"]
     ELSE [v |-> "ok", pos |-> raw.pos, drift |-> r.s.drift, logdrift |-> raw.v]
Judge == LET c == Cases[tid] r == Verdict(c) IN PrintT(ToJson([gtid |-> c.gtid, v |-> r.v, tags |-> c.tag, pos |-> r.pos, drift |-> r.drift, logdrift |-> r.logdrift]))
=============================================================================
