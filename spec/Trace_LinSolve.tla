--------------------------- MODULE Trace_LinSolve ---------------------------
(* Batch judge for C09.  A case: sr, n, A (flat n x n), b (list of m columns,   *)
(* each of length n), transpose flag, what (solve / multi_solve / pt_solve /    *)
(* multi_mv), the observed result X (list of m columns of intervals), and       *)
(* whether the arguments were left unmodified.  mode "exact": carriers nat /    *)
(* mp / bool, expected by LsLeast;  mode "cert": quarters, A and b are 4 x the  *)
(* real entries and c.x is the certified solution.                             *)
EXTENDS LinSolve
VARIABLE tid
Cases == JsonDeserialize("cases.json")
Init == tid \in 1..Len(Cases)
Next == UNCHANGED tid
In(v, iv) == iv[1] <= v /\ v <= iv[2]
Verdict(c) ==
  LET A == IF c.transpose THEN LsTranspose(c.A, c.n) ELSE c.A IN
  IF c.out # "ok" THEN "Raised"
  ELSE IF ~c.unchanged THEN "ArgumentsUnmodified"
  ELSE IF c.what = "near_one" THEN (IF LsNearOneOK(c.k, c.obs) THEN "ok" ELSE "LeastSolutionNearTheRadiusOfConvergence")
  ELSE IF Len(c.X) # Len(c.b) \/ \E q \in DOMAIN c.X : Len(c.X[q]) # c.n THEN "ResultShape"
  ELSE IF c.what = "multi_mv" THEN
     (IF \E q \in DOMAIN c.b : \E i \in 1..c.n : ~In(LsMatVec(c.sr, A, c.n, c.b[q])[i], c.X[q][i]) THEN "MultiMvIsMatrixVectorProduct" ELSE "ok")
  ELSE IF c.mode = "cert" THEN
     (IF \E q \in DOMAIN c.b : ~LsCertified(A, c.n, c.b[q], c.x[q]) THEN "GeneratorGaveUncertifiedSystem"
      ELSE IF \E q \in DOMAIN c.b : \E i \in 1..c.n : ~In(c.x[q][i], c.X[q][i]) THEN "LeastSolution" ELSE "ok")
  ELSE (IF \E q \in DOMAIN c.b : \E i \in 1..c.n : ~In(LsLeast(c.sr, A, c.n, c.b[q])[i], c.X[q][i]) THEN "LeastSolution" ELSE "ok")
Judge == LET c == Cases[tid] IN PrintT(ToJson([gtid |-> c.gtid, v |-> Verdict(c), tags |-> c.tag]))
=============================================================================
