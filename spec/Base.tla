------------------------------- MODULE Base -------------------------------
(* Shared vocabulary of the fggs session specification: sentinels for the     *)
(* values TLC cannot represent (infinities, NaN, "not on the carrier"),       *)
(* sequence / tensor-index helpers.  Every other module EXTENDS this one.     *)
EXTENDS Integers, Sequences, FiniteSets, TLC, Json, SequencesExt, FiniteSetsExt

INF    == 1000000      \* +infinity
NINF   == -1000000     \* -infinity
NAN    == 7777777      \* not-a-number
NONINT == 5555555      \* a float outside the exact carrier (never equals an expected value)
ABSENT == 6666666      \* no value (e.g. gradient is None)

BMax(a, b) == IF a >= b THEN a ELSE b
BMin(a, b) == IF a <= b THEN a ELSE b
BAbs(a) == IF a < 0 THEN -a ELSE a

BSeqSet(s) == { s[i] : i \in DOMAIN s }
BSeqSum(s) == FoldLeft(LAMBDA acc, x: acc + x, 0, s)
BSeqProd(s) == FoldLeft(LAMBDA acc, x: acc * x, 1, s)
BIota(n) == [i \in 1..n |-> i]
BNoDup(s) == \A i, j \in DOMAIN s : i # j => s[i] # s[j]
BIndexOf(s, x) == CHOOSE i \in DOMAIN s : s[i] = x
BHas(s, x) == \E i \in DOMAIN s : s[i] = x
BCount(s, x) == Cardinality({ i \in DOMAIN s : s[i] = x })
BSelect(s, P(_)) == SelectSeq(s, P)
BMapSeq(s, F(_)) == [i \in DOMAIN s |-> F(s[i])]
BConcatAll(ss) == FoldLeft(LAMBDA acc, x: acc \o x, <<>>, ss)

\* all sequences of length n over set S
BTuples(S, n) == [1..n -> S]
\* all sequences over S with length <= n
BSeqsUpTo(S, n) == UNION { [1..k -> S] : k \in 0..n }

(* Row-major tensors: a tensor of shape <<d1,..,dk>> is a flat sequence of    *)
(* d1*..*dk values (1-based); an index tuple is <<i1,..,ik>> with 0 <= ij < dj *)
BNumel(shape) == BSeqProd(shape)
BMaxOfSeq(s) == FoldLeft(LAMBDA acc, x: BMax(acc, x), 0, s)
BIndexTuples(shape) == { a \in [1..Len(shape) -> 0..(BMaxOfSeq(shape) - 1)] :
                           \A i \in 1..Len(shape) : a[i] < shape[i] }
BFlat(shape, a) == 1 + FoldLeft(LAMBDA acc, i: acc * shape[i] + a[i], 0, BIota(Len(shape)))
=============================================================================
