---------------------------- MODULE Trace_Einsum ----------------------------
(* Batch judge for C07: one case = operand structures (values on the carrier), *)
(* the labelling, the observed result (intervals) and, for the Viterbi variant,*)
(* the observed pointers.                                                     *)
EXTENDS Einsum
VARIABLE tid
Cases == JsonDeserialize("cases.json")
Init == tid \in 1..Len(Cases)
Next == UNCHANGED tid

Dens(c) == [k \in DOMAIN c.ops |-> PtDense(c.ops[k])]
Shapes(c) == [k \in DOMAIN c.ops |-> PtVShape(c.ops[k])]
In(v, iv) == iv[1] <= v /\ v <= iv[2]

\* pointers: c.ptr[pos] = <<values of the summed-out indices, in the order c.summed>>
ArgmaxOK(c, exp) ==
  LET osh == EsOutShape(c.output, c.sizes) IN
  \A pos \in 1..BNumel(osh) :
     LET oa == CHOOSE a \in EsAsgs(c.sizes, BSeqSet(c.output)) : BFlat(osh, [m \in DOMAIN c.output |-> a[c.output[m]]]) = pos
         p == c.ptr[pos] IN
     /\ Len(p) = Len(c.summed)
     /\ \A m \in DOMAIN p : p[m] \in 0..(c.sizes[c.summed[m]] - 1)
     /\ EsCell(c.sr, Dens(c), Shapes(c), c.inputs, EsMerge(oa, [x \in BSeqSet(c.summed) |-> p[BIndexOf(c.summed, x)]])) = exp[pos]

Verdict(c) ==
  IF \E k \in DOMAIN c.ops : PtWFClause(c.ops[k]) \notin {"ok", "NoPhysicalAxisOfSizeOne"} THEN "GeneratorGaveIllFormedOperand"
  ELSE IF \E k \in DOMAIN c.ops : PtVShape(c.ops[k]) # [m \in DOMAIN c.inputs[k] |-> c.sizes[c.inputs[k][m]]] THEN "GeneratorGaveWrongShape"
  ELSE IF \E k \in DOMAIN c.ops : c.opdense[k] # PtDense(c.ops[k]) THEN "OperandDenotation"
  ELSE IF c.out # "ok" THEN "Raised"
  ELSE LET exp == EsResult(c.sr, Dens(c), Shapes(c), c.inputs, c.output, c.sizes) IN
       IF c.shape # EsOutShape(c.output, c.sizes) \/ Len(c.res) # Len(exp) THEN "ResultShape"
       ELSE IF \E pos \in DOMAIN exp : ~In(exp[pos], c.res[pos]) THEN "EinsumEqualsDefinition"
       ELSE IF c.viterbi /\ BNumel(EsOutShape(c.output, c.sizes)) > 0 /\
               (\A x \in BSeqSet(c.summed) : c.sizes[x] > 0) /\ ~ArgmaxOK(c, exp) THEN "PointersAttainTheMaximum"
       ELSE "ok"
\* signature of the recorded finding C07-viterbi-inf: the Viterbi variant on operands holding both +inf and -inf
HasVal(c, x) == \E k \in DOMAIN c.ops : \E i \in DOMAIN Dens(c)[k] : Dens(c)[k][i] = x
\* ... and every cell that disagrees with the definition is a nan
OnlyNanCellsWrong(c) ==
  LET exp == EsResult(c.sr, Dens(c), Shapes(c), c.inputs, c.output, c.sizes) IN
  c.out = "ok" /\ Len(c.res) = Len(exp) /\ \A pos \in DOMAIN exp : In(exp[pos], c.res[pos]) \/ c.res[pos] = <<NAN, NAN>>
SigTags(c) == IF c.viterbi /\ HasVal(c, INF) /\ HasVal(c, NINF) /\ OnlyNanCellsWrong(c) THEN <<"viterbi_inf_and_neginf_gives_nan">> ELSE <<>>
Judge == LET c == Cases[tid] IN PrintT(ToJson([gtid |-> c.gtid, v |-> Verdict(c), tags |-> c.tag \o SigTags(c)]))
=============================================================================
