------------------------------ MODULE Conjoin ------------------------------
(* Conjunction of two HRGs (C17).  Grammars here carry node and edge IDS,     *)
(* because conjoinability is defined through them:                           *)
(*   g = [els |-> [name |-> [t, type]], start |-> name,                       *)
(*        rules |-> <<[lhs, nodes |-> <<[id, l]>>, edges |-> <<[id, lab, att |-> <<node id>>]>>, ext |-> <<node id>>]>>] *)
EXTENDS Base

CjNts(g) == { n \in DOMAIN g.els : ~g.els[n].t }
CjNtEdges(g, r) == { r.edges[k] : k \in { k \in DOMAIN r.edges : ~g.els[r.edges[k].lab].t } }
CjTermEdges(g, r) == SelectSeq(r.edges, LAMBDA e: g.els[e.lab].t)
CjSkel(g, r) == { [id |-> e.id, att |-> e.att] : e \in CjNtEdges(g, r) }

\* same nodes, same external nodes, same nonterminal edges by id and attachment
Conjoinable(g1, r1, g2, r2) ==
  /\ BSeqSet(r1.nodes) = BSeqSet(r2.nodes)
  /\ r1.ext = r2.ext
  /\ CjSkel(g1, r1) = CjSkel(g2, r2)

\* a genuine terminal-label conflict: one name, two different terminal labels
TerminalConflict(g1, g2) ==
  \E n \in DOMAIN g1.els \cap DOMAIN g2.els : g1.els[n].t /\ g2.els[n].t /\ g1.els[n] # g2.els[n]

\* the rule the pair (r1, r2) must give under the naming P of nonterminal pairs;
\* edges as a BAG of [lab, att] (terminal edges of both, one paired edge per shared edge)
ConjRule(g1, r1, g2, r2, P) ==
  LET paired == { [lab |-> P[<<e.lab, (CHOOSE f \in CjNtEdges(g2, r2) : f.id = e.id).lab>>], att |-> e.att] : e \in CjNtEdges(g1, r1) }
      pseq == SetToSeq(paired)
      \* paired edges with equal label and attachment but different ids must both be kept: build from ids
      ids == SetToSeq({ e.id : e \in CjNtEdges(g1, r1) })
      byid == [q \in DOMAIN ids |->
                 LET e == CHOOSE e \in CjNtEdges(g1, r1) : e.id = ids[q]
                     f == CHOOSE f \in CjNtEdges(g2, r2) : f.id = ids[q]
                 IN [lab |-> P[<<e.lab, f.lab>>], att |-> e.att]]
      terms == [q \in DOMAIN CjTermEdges(g1, r1) |-> [lab |-> CjTermEdges(g1, r1)[q].lab, att |-> CjTermEdges(g1, r1)[q].att]]
               \o [q \in DOMAIN CjTermEdges(g2, r2) |-> [lab |-> CjTermEdges(g2, r2)[q].lab, att |-> CjTermEdges(g2, r2)[q].att]]
  IN [lhs |-> P[<<r1.lhs, r2.lhs>>], nodes |-> BSeqSet(r1.nodes), ext |-> r1.ext, edges |-> byid \o terms]

CjBagEq(s1, s2) == /\ Len(s1) = Len(s2)
                   /\ \A i \in DOMAIN s1 : Cardinality({ j \in DOMAIN s1 : s1[j] = s1[i] }) = Cardinality({ j \in DOMAIN s2 : s2[j] = s1[i] })
CjRuleEq(exp, obs) ==
  /\ obs.lhs = exp.lhs /\ BSeqSet(obs.nodes) = exp.nodes /\ obs.ext = exp.ext
  /\ CjBagEq([q \in DOMAIN obs.edges |-> [lab |-> obs.edges[q].lab, att |-> obs.edges[q].att]], exp.edges)

\* canonical forms: an edge sequence as a multiset function, a rule as a record of canonical parts
CjEdgeBag(s) == [e \in BSeqSet(s) |-> Cardinality({ q \in DOMAIN s : s[q] = e })]
CjCanonExp(x) == [lhs |-> x.lhs, nodes |-> x.nodes, ext |-> x.ext, bag |-> CjEdgeBag(x.edges)]
CjCanonObs(o) == [lhs |-> o.lhs, nodes |-> BSeqSet(o.nodes), ext |-> o.ext,
                  bag |-> CjEdgeBag([q \in DOMAIN o.edges |-> [lab |-> o.edges[q].lab, att |-> o.edges[q].att]])]

ConjPairs(g1, g2) == { p \in (DOMAIN g1.rules) \X (DOMAIN g2.rules) : Conjoinable(g1, g1.rules[p[1]], g2, g2.rules[p[2]]) }

\* h (observed) is the conjunction under naming P
ConjOKUnder(g1, g2, h, P) ==
  LET pairs == SetToSeq(ConjPairs(g1, g2))
      exp == [q \in DOMAIN pairs |-> ConjRule(g1, g1.rules[pairs[q][1]], g2, g2.rules[pairs[q][2]], P)]
      ce == [q \in DOMAIN exp |-> CjCanonExp(exp[q])]
      co == [q \in DOMAIN h.rules |-> CjCanonObs(h.rules[q])]
  IN /\ Len(co) = Len(ce)
     /\ \A q \in DOMAIN ce : Cardinality({ i \in DOMAIN ce : ce[i] = ce[q] }) = Cardinality({ i \in DOMAIN co : co[i] = ce[q] })
     /\ h.start = P[<<g1.start, g2.start>>]
PairNamesFresh(g1, g2, P) ==
  /\ \A p, q \in DOMAIN P : p # q => P[p] # P[q]
  /\ \A p \in DOMAIN P : P[p] \notin DOMAIN g1.els /\ P[p] \notin DOMAIN g2.els

\* number of derivations of depth <= d (design-level: conjunction = paired derivations)
RECURSIVE CjCount(_, _, _)
CjCount(g, X, d) ==
  IF d = 0 THEN 0 ELSE
  BSeqSum([i \in DOMAIN g.rules |->
     IF g.rules[i].lhs # X THEN 0
     ELSE BSeqProd([k \in DOMAIN g.rules[i].edges |->
             IF g.els[g.rules[i].edges[k].lab].t THEN 1 ELSE CjCount(g, g.rules[i].edges[k].lab, d - 1)])])
RECURSIVE CjPairCount(_, _, _, _, _)
CjPairCount(g1, g2, X1, X2, d) ==
  IF d = 0 THEN 0 ELSE
  LET pairs == SetToSeq({ p \in ConjPairs(g1, g2) : g1.rules[p[1]].lhs = X1 /\ g2.rules[p[2]].lhs = X2 }) IN
  BSeqSum([q \in DOMAIN pairs |->
     LET r1 == g1.rules[pairs[q][1]] r2 == g2.rules[pairs[q][2]]
         es == SetToSeq(CjNtEdges(g1, r1)) IN
     BSeqProd([k \in DOMAIN es |->
         CjPairCount(g1, g2, es[k].lab, (CHOOSE f \in CjNtEdges(g2, r2) : f.id = es[k].id).lab, d - 1)])])
=============================================================================
