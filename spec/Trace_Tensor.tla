---------------------------- MODULE Trace_Tensor ----------------------------
(* Batch judge for C06 / C13 (and the denotation part of C14):                *)
(*  "dense"   : a constructed pattern: to_dense() (obs) = PtDense(structure),   *)
(*              the structure read back from the object is well formed and     *)
(*              denotes the same tensor as the structure it was built from     *)
(*  "op"      : an operation: obs (result.to_dense()) is close to exp (the      *)
(*              torch operation on the dense operands), the result structure   *)
(*              is well formed and denotes obs                                 *)
(*  "raise"   : an operation that raised: allowed only where the property      *)
(*              allows it (reshape/view that is not a merge / 1-insertion)     *)
(*  "wf"      : a structure the library constructed internally (hook)          *)
(*  "equal"   : C13 -- equal / allclose / equal_default decided on PtDense     *)
(* Values are encoded floats (harness/pt.py): 1000 v rounded, sentinels.       *)
EXTENDS Axes
VARIABLE tid
Cases == JsonDeserialize("cases.json")
Init == tid \in 1..Len(Cases)
Next == UNCHANGED tid

EPINF == 2000000001  EMINF == -2000000001  ENAN == 2000000002  EBIGP == 2000000003  EBIGN == -2000000003
Special(a) == a \in {EPINF, EMINF, ENAN, EBIGP, EBIGN}
Close(a, b) == a = b \/ (~Special(a) /\ ~Special(b) /\ BAbs(a - b) <= 1 + (BMax(BAbs(a), BAbs(b)) \div 100000))
SeqClose(s, t) == Len(s) = Len(t) /\ \A i \in DOMAIN s : Close(s[i], t[i])

StructClause(st, obs) ==
  LET wf == PtWFClause(st) IN
  IF wf # "ok" THEN wf
  ELSE IF PtVShape(st) # obs.shape THEN "ResultShape"
  ELSE IF ~SeqClose(PtDense(st), obs.flat) THEN "ToDenseIsTheDenotation"
  ELSE "ok"

\* C13: dense equality / allclose (torch rule |a-b| <= atol + rtol |b| on encoded values; atol, rtol in 1/1000)
DenseEq(a, b) == a.shape = b.shape /\ \A i \in DOMAIN a.flat : a.flat[i] = b.flat[i] /\ a.flat[i] # ENAN
IsCloseVal(a, b, rtol, atol, eqnan) ==
  IF a = ENAN \/ b = ENAN THEN eqnan /\ a = b
  ELSE IF Special(a) \/ Special(b) THEN a = b
  ELSE 1000 * BAbs(a - b) <= 1000 * atol + rtol * BAbs(b)
DenseAllclose(a, b, rtol, atol, eqnan) ==
  a.shape = b.shape /\ \A i \in DOMAIN a.flat : IsCloseVal(a.flat[i], b.flat[i], rtol, atol, eqnan)
DenseOf(st) == [shape |-> PtVShape(st), flat |-> PtDense(st)]

Verdict(c) ==
  IF c.kind = "dense" THEN
     IF c.out # "ok" THEN "Raised"
     ELSE IF StructClause(c.rb, c.obs) # "ok" THEN StructClause(c.rb, c.obs)
     ELSE IF PtVShape(c.st) # c.obs.shape \/ ~SeqClose(PtDense(c.st), c.obs.flat) THEN "ConstructionPreservesDenotation"
     ELSE "ok"
  ELSE IF c.kind = "dense_exact" THEN
     \* a construction in double precision from values that doubles hold exactly to 1/1000: no tolerance
     IF c.out # "ok" THEN "Raised"
     ELSE IF PtWFClause(c.rb) # "ok" THEN PtWFClause(c.rb)
     ELSE IF PtVShape(c.st) # c.obs.shape \/ PtDense(c.st) # c.obs.flat \/ PtDense(c.rb) # c.obs.flat THEN "ConstructionPreservesDenotation"
     ELSE "ok"
  ELSE IF c.kind = "op" THEN
     IF c.out # "ok" THEN (IF c.mayraise THEN "ok" ELSE "Raised")
     ELSE IF c.obs.shape # c.exp.shape THEN "ResultShape"
     ELSE IF ~SeqClose(c.obs.flat, c.exp.flat) THEN "SameAsTorchOnDense"
     ELSE IF c.obs.dt # c.exp.dt THEN "SameDtypeAsTorchOnDense"
     ELSE IF c.hasst /\ StructClause(c.rb, c.obs) # "ok" THEN StructClause(c.rb, c.obs)
     ELSE "ok"
  ELSE IF c.kind = "project" THEN
     \* t.project(paxes, vaxes): a tensor over the target's physical axes with  result[q] = dense(t)[ virtual index of q under the target's vaxes ]
     IF c.out # "ok" THEN "Raised"
     ELSE LET d == PtDense(c.src)  tg == c.target
              exp == [pos \in 1..BNumel(PtPShape(tg)) |->
                         LET q == CHOOSE q \in PtPhysTuples(tg) : BFlat(PtPShape(tg), q) = pos IN d[PtVPos(tg, q)]]
          IN IF c.obs.shape # PtPShape(tg) THEN "ResultShape"
             ELSE IF PtVShape(tg) # PtVShape(c.src) THEN "GeneratorGaveWrongShape"
             ELSE IF ~SeqClose(c.obs.flat, exp) THEN "ProjectExtractsTheViewItDescribes"
             ELSE "ok"
  ELSE IF c.kind = "reshape" THEN
     IF c.out = "ok" THEN
        (IF c.obs.shape # c.target THEN "ResultShape"
         ELSE IF ~SeqClose(c.obs.flat, c.exp.flat) THEN "SameAsTorchOnDense"
         ELSE IF StructClause(c.rb, c.obs) # "ok" THEN StructClause(c.rb, c.obs) ELSE "ok")
     ELSE IF c.out # "raise:RuntimeError" THEN "ReshapeRaisesOnlyRuntimeError"
     ELSE IF MustReshape(c.shape, c.target) THEN "ReshapeSucceedsOnMergesAndUnitDims"
     ELSE "ok"
  ELSE IF c.kind = "wf" THEN PtWFClause(c.rb)
  ELSE IF c.kind = "equal" THEN
     LET a == DenseOf(c.t) b == DenseOf(c.u) IN
     IF c.out # "ok" THEN "Raised"
     ELSE IF c.equal # DenseEq(a, b) THEN "EqualDecidesDenseEquality"
     ELSE IF c.equal_rev # DenseEq(b, a) THEN "EqualSymmetric"
     ELSE IF \E k \in DOMAIN c.close : c.close[k].r # DenseAllclose(a, b, c.close[k].rtol, c.close[k].atol, c.close[k].eqnan) THEN "AllcloseDecidesDenseAllclose"
     ELSE IF c.tdef # (\A i \in DOMAIN a.flat : a.flat[i] = c.t.d /\ a.flat[i] # ENAN) THEN "EqualDefaultDecidesConstantTensor"
     ELSE IF \E k \in DOMAIN c.closedef : c.closedef[k].r # (\A i \in DOMAIN a.flat : IsCloseVal(a.flat[i], c.t.d, c.closedef[k].rtol, c.closedef[k].atol, TRUE))
          THEN "AllcloseDefaultDecidesNearConstantTensor"
     ELSE "ok"
  ELSE IF c.kind = "multi" THEN
     \* MultiTensor.allclose: an absent block is the zero tensor (zero = c.zero, encoded)
     LET blk(b, sh) == IF b.absent THEN [shape |-> sh, flat |-> [i \in 1..BNumel(sh) |-> c.zero]] ELSE DenseOf(b.st)
         okk(k) == DenseAllclose(blk(c.blocks[k].a, c.blocks[k].shape), blk(c.blocks[k].b, c.blocks[k].shape), 0, c.tol, FALSE)
     IN IF c.out # "ok" THEN "Raised"
        ELSE IF c.r # (\A k \in DOMAIN c.blocks : okk(k)) THEN "MultiAllcloseTreatsAbsentBlockAsZero"
        ELSE "ok"
  ELSE "UnknownCase"
Judge == LET c == Cases[tid] IN PrintT(ToJson([gtid |-> c.gtid, v |-> Verdict(c), tags |-> c.tag]))
=============================================================================
