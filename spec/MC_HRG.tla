------------------------------- MODULE MC_HRG -------------------------------
(* Bounded instance of the grammar part of the heap: one mutable Graph g1     *)
(* (used as a shared right-hand side), two HRG/FGG handles h1, h2 (h2 comes   *)
(* into being by copy or by its own constructor).  Calls that must fail are   *)
(* part of the alphabet.  The model stores a rule's right-hand side by        *)
(* HANDLE when the caller passed g1, as the code does, so "mutate the graph   *)
(* after add_rule" is a behaviour of the model (R3: it breaks HRGWF -- the    *)
(* recorded finding C16-shared-rhs).                                         *)
EXTENDS Graphs
CONSTANTS Depth, Kind, WithInterp
VARIABLES s, last, everShared   \* everShared: history -- some rule was ever given g1 itself as rhs

NA == [id |-> "x", l |-> "A"]   NB == [id |-> "x", l |-> "B"]   NY == [id |-> "y", l |-> "A"]
LS  == [name |-> "S", type |-> <<>>, t |-> FALSE]
LX  == [name |-> "X", type |-> <<"A">>, t |-> FALSE]
LXt == [name |-> "X", type |-> <<"A">>, t |-> TRUE]        \* clashes with LX
La  == [name |-> "a", type |-> <<"A">>, t |-> TRUE]
La2 == [name |-> "a", type |-> <<"B">>, t |-> TRUE]        \* clashes with La
Labels == {LS, LX, LXt, La, La2}

MkG(ns, es, x) == [k |-> "graph", nodes |-> ns, edges |-> es, ext |-> x,
                   nls |-> { n.l : n \in ns }, els |-> { e.lab : e \in es }]
Ea  == [id |-> "e", lab |-> La, att |-> <<NA>>]
Ex  == [id |-> "f", lab |-> LX, att |-> <<NA>>]
Ea2 == [id |-> "e", lab |-> La2, att |-> <<NB>>]
Ext == [id |-> "f", lab |-> LXt, att |-> <<NA>>]
R0 == MkG({}, {}, <<>>)                 \* S -> empty
R1 == MkG({NA}, {Ea}, <<NA>>)           \* X(x) -> a(x)
R2 == MkG({NA}, {Ea, Ex}, <<NA>>)       \* X(x) -> a(x) X(x)
R3 == MkG({NA}, {Ex}, <<>>)             \* S -> X(x)
R4 == MkG({NA}, {Ea, Ext}, <<NA>>)      \* uses terminal "X": clashes with the nonterminal X
Shared == [shared |-> TRUE, g |-> GEmpty]
Val(g) == [shared |-> FALSE, g |-> g]
RhsRefs == {Shared, Val(R0), Val(R1), Val(R2), Val(R3), Val(R4)}

D2 == [cls |-> "range", size |-> 2, vals |-> <<0, 1>>]
D3 == [cls |-> "range", size |-> 3, vals |-> <<0, 1, 2>>]
D0 == [cls |-> "range", size |-> 0, vals |-> <<>>]          \* the EMPTY domain binds a node label like any other
F2 == [doms |-> <<D2>>, shape |-> <<2>>, w |-> <<1, 2>>]
F3 == [doms |-> <<D3>>, shape |-> <<3>>, w |-> <<1, 2, 3>>]
F22 == [doms |-> <<D2, D2>>, shape |-> <<2, 2>>, w |-> <<1, 2, 3, 4>>]
F0 == [doms |-> <<>>, shape |-> <<>>, w |-> <<5>>]

HH == {"h1", "h2"}
GraphCalls ==
       { [op |-> "add_node", h |-> "g1", n |-> n] : n \in {NA, NY} }
  \cup { [op |-> "add_edge", h |-> "g1", e |-> e] : e \in {Ea, Ex, Ea2} }
  \cup { [op |-> "remove_edge", h |-> "g1", e |-> Ea] }
  \cup { [op |-> "set_ext", h |-> "g1", x |-> x] : x \in {<<>>, <<NA>>, <<NY>>} }
HrgCalls ==
       { [op |-> "new_hrg", h |-> h, kind |-> Kind, start |-> st] : h \in HH, st \in {NoLabel, LS, LX, La} }
  \cup { [op |-> "set_start", h |-> h, lab |-> l] : h \in HH, l \in {LS, LX, La} }
  \cup { [op |-> "set_start_str", h |-> h, name |-> n] : h \in HH, n \in {"S", "X", "a"} }
  \cup { [op |-> "add_edge_label", h |-> h, lab |-> l] : h \in HH, l \in Labels }
  \cup { [op |-> "add_node_label", h |-> h, nl |-> "A"] : h \in HH }
  \cup { [op |-> "add_rule", h |-> h, lhs |-> l, rhs |-> r] : h \in HH, l \in {LS, LX, La}, r \in RhsRefs }
  \cup { [op |-> "new_rule", h |-> h, name |-> n, rhs |-> r] : h \in HH, n \in {"S", "X"}, r \in RhsRefs }
  \cup { [op |-> "copy", h |-> h] : h \in HH }
InterpCalls == IF ~WithInterp THEN {} ELSE
       { [op |-> "add_domain", h |-> h, nl |-> nl, dom |-> d] : h \in HH, nl \in {"A", "B"}, d \in {D0, D2, D3} }
  \cup { [op |-> "add_factor", h |-> h, el |-> l, fac |-> f] : h \in HH, l \in {La, La2, LX, LXt}, f \in {F2, F3, F22, F0} }
  \cup { [op |-> "set_weights", h |-> h, name |-> "a", w |-> <<7, 8>>] : h \in HH }
Calls == IF WithInterp THEN InterpCalls \cup { c \in HrgCalls : c.op \in {"new_hrg", "copy", "add_edge_label"} }
                                        \cup { c \in HrgCalls : c.op = "add_rule" /\ c.rhs \in {Val(R1), Val(R0)} }
         ELSE GraphCalls \cup HrgCalls

Init == s = [g1 |-> GEmpty, h1 |-> NoObj, h2 |-> NoObj] /\ last = [op |-> "init"] /\ everShared = FALSE
Next == \E c \in Calls : LET r == HeapApply(s, c) IN
          /\ r.out # "skip"
          /\ s' = r.s
          /\ last' = [call |-> c, out |-> r.out]
          /\ everShared' = (everShared \/ (c.op \in {"add_rule", "new_rule"} /\ r.out = "ok" /\ c.rhs.shared))
View == <<s, everShared>>
Bound == TLCGet("level") <= Depth
DumpT == PrintT(ToJson([lvl |-> TLCGet("level"), pre |-> s, act |-> last', post |-> s']))

\* R3 on the descriptive model (projection = Resolve)
ModelWF == \A h \in DOMAIN s : ObjWFClause(Resolve(s)[h]) = "ok"
\* ... the shared right-hand side is where today's design cannot keep HRGWF:
ModelWFUnlessSharedMutation ==
  (\E h \in DOMAIN s : ObjWFClause(Resolve(s)[h]) # "ok") => everShared
ModelFailureAtomic == [][last'.out = "raise" => s' = s]_<<s, last, everShared>>
=============================================================================
