----------------------------- MODULE MC_Builder -----------------------------
(* The construction of a grammar as a state machine (C12): the target is an   *)
(* abstract grammar (target.json, format harness/ag.py); every public call    *)
(* that contributes to it is an item; an item is enabled once what it needs   *)
(* exists.  A behaviour is a SCHEDULE of construction calls.  All maximal     *)
(* behaviours end in the same state (R3: Confluent), so any difference in     *)
(* results between two schedules is a dependence on presentation.             *)
(*   <<"node", r, j>>  rhs_r.add_node(node j)                                 *)
(*   <<"edge", r, k>>  rhs_r.add_edge(edge k)   (adds its missing nodes)      *)
(*   <<"rule", r>>     rhs_r.ext = ...; fgg.add_rule(lhs, rhs_r)              *)
(*   <<"dom", l>>      fgg.add_domain(l, ...)                                 *)
(*   <<"fac", t>>      fgg.add_factor(t, ...)   (needs the domains of t)      *)
(*   <<"lab", n>>      fgg.add_edge_label(n)    (optional registration)       *)
EXTENDS Base
VARIABLES done, last, closed     \* closed: the builder handed the grammar over (no more calls)
G == JsonDeserialize("target.json")

NodeItems == UNION { { <<"node", r, j>> : j \in DOMAIN G.rules[r].nodes } : r \in DOMAIN G.rules }
EdgeItems == UNION { { <<"edge", r, k>> : k \in DOMAIN G.rules[r].edges } : r \in DOMAIN G.rules }
RuleItems == { <<"rule", r>> : r \in DOMAIN G.rules }
DomItems == { <<"dom", l>> : l \in DOMAIN G.nls }
FacItems == { <<"fac", t>> : t \in { n \in DOMAIN G.els : G.els[n].t } }
LabItems == { <<"lab", n>> : n \in DOMAIN G.els }
Items == NodeItems \cup EdgeItems \cup RuleItems \cup DomItems \cup FacItems \cup LabItems

\* nodes implicitly present: added explicitly or by an edge attached to them
HasNode(d, r, j) == <<"node", r, j>> \in d \/ \E k \in DOMAIN G.rules[r].edges : <<"edge", r, k>> \in d /\ BHas(G.rules[r].edges[k].att, j)
Enabled(d, it) ==
  /\ it \notin d
  /\ CASE it[1] = "node" -> ~HasNode(d, it[2], it[3]) /\ <<"rule", it[2]>> \notin d
       [] it[1] = "edge" -> <<"rule", it[2]>> \notin d
       [] it[1] = "rule" -> /\ \A k \in DOMAIN G.rules[it[2]].edges : <<"edge", it[2], k>> \in d
                            /\ \A j \in DOMAIN G.rules[it[2]].nodes : HasNode(d, it[2], j) \/ BHas(G.rules[it[2]].ext, j)
       [] it[1] = "dom"  -> TRUE
       [] it[1] = "fac"  -> \A i \in DOMAIN G.els[it[2]].type : <<"dom", G.els[it[2]].type[i]>> \in d
       [] it[1] = "lab"  -> TRUE
\* what must be there at the end (explicit node additions and label registrations are optional)
Finished(d) == RuleItems \cup DomItems \cup FacItems \subseteq d

Init == done = {} /\ last = <<"init">> /\ closed = FALSE
Add == \E it \in Items : ~closed /\ Enabled(done, it) /\ done' = done \cup {it} /\ last' = it /\ UNCHANGED closed
HandOver == ~closed /\ Finished(done) /\ closed' = TRUE /\ last' = <<"handover">> /\ UNCHANGED done
Next == Add \/ HandOver
View == <<done, closed>>
\* the abstract grammar a state denotes: which rules / domains / factors exist (their content is fixed by G)
Denotes(d) == [rules |-> { it[2] : it \in d \cap RuleItems }, doms |-> { it[2] : it \in d \cap DomItems }, facs |-> { it[2] : it \in d \cap FacItems }]
Confluent == Finished(done) => Denotes(done) = [rules |-> DOMAIN G.rules, doms |-> DOMAIN G.nls, facs |-> { n \in DOMAIN G.els : G.els[n].t }]
DumpT == PrintT(ToJson([lvl |-> TLCGet("level"), pre |-> <<done, closed>>, post |-> <<done', closed'>>, act |-> last', fin |-> Finished(done')]))
=============================================================================
