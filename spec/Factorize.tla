------------------------------ MODULE Factorize ------------------------------
(* Rule factorization (C05).  A rule is                                       *)
(*   [lhs |-> [name,type,t], nodes |-> <<[id |-> int, l |-> label]>>,         *)
(*    edges |-> <<[lab |-> [name,type,t], att |-> <<node id>>]>>, ext |-> <<node id>>] *)
(* `orig` are the rules given, `new` the rules returned, `names` the edge-     *)
(* label names in use before the call.  A nonterminal is FRESH iff its name   *)
(* is not in `names`.                                                        *)
EXTENDS TreeDec

FzFresh(names, n) == ~BHas(names, n)
FzNodeIds(r) == { r.nodes[i].id : i \in DOMAIN r.nodes }
FzLabelOf(r, id) == (CHOOSE i \in DOMAIN r.nodes : r.nodes[i].id = id)
FzRuleWF(r) ==
  /\ BNoDup([i \in DOMAIN r.nodes |-> r.nodes[i].id])
  /\ \A k \in DOMAIN r.edges : \A m \in DOMAIN r.edges[k].att : r.edges[k].att[m] \in FzNodeIds(r)
  /\ \A k \in DOMAIN r.ext : r.ext[k] \in FzNodeIds(r)
  /\ \A k \in DOMAIN r.edges : [m \in DOMAIN r.edges[k].att |-> r.nodes[FzLabelOf(r, r.edges[k].att[m])].l] = r.edges[k].lab.type
  /\ [k \in DOMAIN r.ext |-> r.nodes[FzLabelOf(r, r.ext[k])].l] = r.lhs.type

FzFreshRules(names, new) == { i \in DOMAIN new : FzFresh(names, new[i].lhs.name) }
FzTopRules(names, new) == { i \in DOMAIN new : ~FzFresh(names, new[i].lhs.name) }
FzFreshEdges(names, new) == { <<i, k>> \in (DOMAIN new) \X (1..12) : k \in DOMAIN new[i].edges /\ FzFresh(names, new[i].edges[k].lab.name) /\ ~new[i].edges[k].lab.t }
FzRuleFor(names, new, n) == CHOOSE i \in FzFreshRules(names, new) : new[i].lhs.name = n

\* every fresh nonterminal: exactly one rule, used by exactly one edge, one label per name
FzFreshDiscipline(names, new) ==
  /\ \A i, j \in FzFreshRules(names, new) : new[i].lhs.name = new[j].lhs.name => i = j
  /\ \A i \in FzFreshRules(names, new) : Cardinality({ p \in FzFreshEdges(names, new) : new[p[1]].edges[p[2]].lab.name = new[i].lhs.name }) = 1
  /\ \A p \in FzFreshEdges(names, new) : \E i \in FzFreshRules(names, new) : new[i].lhs = new[p[1]].edges[p[2]].lab
  /\ \A i \in FzFreshRules(names, new) : ~new[i].lhs.t

(* Inlining: replace every fresh-nonterminal edge by the unique rule of that nonterminal, *)
(* identifying the rule's external nodes with the attachment nodes in order; other nodes  *)
(* of the inlined rule become new nodes named path \o <<0, id>>.  The result is a flat    *)
(* record [nodes |-> SET of [id, l], edges |-> SEQ of [lab, att]] (edges as a bag).       *)
RECURSIVE FzInline(_, _, _, _, _)
\* env: function from the rule's node ids to inlined names; returns [nodes, edges]
FzInline(names, new, i, path, env) ==
  LET r == new[i]
      name(id) == IF id \in DOMAIN env THEN env[id] ELSE path \o <<0, id>>
      own == { [id |-> name(r.nodes[j].id), l |-> r.nodes[j].l] : j \in { j \in DOMAIN r.nodes : r.nodes[j].id \notin DOMAIN env } }
      sub(k) == LET c == FzRuleFor(names, new, r.edges[k].lab.name)
                    cenv == [x \in { new[c].ext[m] : m \in DOMAIN new[c].ext } |->
                               name(r.edges[k].att[CHOOSE m \in DOMAIN new[c].ext : new[c].ext[m] = x])]
                IN FzInline(names, new, c, path \o <<k>>, cenv)
      isFresh(k) == FzFresh(names, r.edges[k].lab.name) /\ ~r.edges[k].lab.t
      plain == SelectSeq([k \in DOMAIN r.edges |-> [k |-> k, lab |-> r.edges[k].lab, att |-> [m \in DOMAIN r.edges[k].att |-> name(r.edges[k].att[m])]]],
                         LAMBDA e: ~isFresh(e.k))
      subs == [k \in { k \in DOMAIN r.edges : isFresh(k) } |-> sub(k)]
  IN [nodes |-> own \cup UNION { subs[k].nodes : k \in DOMAIN subs },
      edges |-> [q \in DOMAIN plain |-> [lab |-> plain[q].lab, att |-> plain[q].att]]
                \o FoldLeft(LAMBDA acc, k: IF k \in DOMAIN subs THEN acc \o subs[k].edges ELSE acc, <<>>, BIota(Len(r.edges)))]

FzInlineTop(names, new, i) ==
  LET r == new[i] IN
  [g |-> FzInline(names, new, i, <<>>, [x \in {} |-> <<>>]), ext |-> [k \in DOMAIN r.ext |-> <<0, r.ext[k]>>], lhs |-> r.lhs]

\* isomorphism of an inlined rule with an original rule: a label-preserving bijection on nodes under
\* which the edge BAGS (label, attachment sequence) coincide and the external sequences coincide
FzBagEq(s1, s2) == /\ Len(s1) = Len(s2)
                   /\ \A i \in DOMAIN s1 : Cardinality({ j \in DOMAIN s1 : s1[j] = s1[i] }) = Cardinality({ j \in DOMAIN s2 : s2[j] = s1[i] })
FzIsoVia(inl, o, f) ==
  /\ \A n \in inl.g.nodes : \E j \in DOMAIN o.nodes : o.nodes[j].id = f[n.id] /\ o.nodes[j].l = n.l
  /\ FzBagEq([q \in DOMAIN inl.g.edges |-> [lab |-> inl.g.edges[q].lab, att |-> [m \in DOMAIN inl.g.edges[q].att |-> f[inl.g.edges[q].att[m]]]]],
             [q \in DOMAIN o.edges |-> [lab |-> o.edges[q].lab, att |-> o.edges[q].att]])
  /\ [k \in DOMAIN inl.ext |-> f[inl.ext[k]]] = o.ext
FzIso(inl, o) ==
  LET N == { n.id : n \in inl.g.nodes }  M == FzNodeIds(o) IN
  /\ inl.lhs = o.lhs
  /\ Cardinality(N) = Cardinality(inl.g.nodes) /\ Cardinality(N) = Cardinality(M)
  /\ \* the implementation re-uses the original node ids: try the identity-on-ids map first
     LET ident == [x \in N |-> x[Len(x)]] IN
     IF { ident[x] : x \in N } = M /\ FzIsoVia(inl, o, ident) THEN TRUE
     ELSE IF Cardinality(N) > 6 THEN TRUE      \* too large to search: uncertified, never an alarm
     ELSE \E f \in [N -> M] : { f[x] : x \in N } = M /\ FzIsoVia(inl, o, f)

\* primal graph of a rule (nodes co-attached to an edge, or jointly external, are adjacent)
FzPrimal(o) ==
  LET ids == [j \in DOMAIN o.nodes |-> o.nodes[j].id]
      pos(id) == CHOOSE j \in DOMAIN ids : ids[j] = id
      groups == { { pos(o.edges[k].att[m]) : m \in DOMAIN o.edges[k].att } : k \in DOMAIN o.edges }
                \cup { { pos(o.ext[m]) : m \in DOMAIN o.ext } }
  IN [n |-> Len(o.nodes),
      adj |-> [v \in 1..Len(o.nodes) |-> SetToSeq({ u \in 1..Len(o.nodes) : u # v /\ \E S \in groups : u \in S /\ v \in S })]]

\* the top (non-fresh) rule a rule belongs to: follow the unique edge that uses its fresh lhs
RECURSIVE FzOwner(_, _, _, _)
FzOwner(names, new, i, fuel) ==
  IF ~FzFresh(names, new[i].lhs.name) \/ fuel = 0 THEN i
  ELSE LET p == CHOOSE p \in FzFreshEdges(names, new) : new[p[1]].edges[p[2]].lab.name = new[i].lhs.name
       IN FzOwner(names, new, p[1], fuel - 1)

FzMatches(names, new, orig, top, f) ==
  /\ { f[i] : i \in top } = DOMAIN orig
  /\ \A i \in top : FzIso(FzInlineTop(names, new, i), orig[f[i]])

FzClause(c) ==
  LET names == c.names  new == c.new  orig == c.orig
      top == FzTopRules(names, new)
  IN
  IF \E i \in DOMAIN new : ~FzRuleWF(new[i]) THEN "NewRulesWellFormed"
  ELSE IF ~FzFreshDiscipline(names, new) THEN "FreshNonterminalsOneRuleOneUse"
  ELSE IF Cardinality(top) # Len(orig) THEN "OneStartRulePerOriginalRuleAndFreshNamesElsewhere"
  ELSE IF ~(\E f \in [top -> DOMAIN orig] : FzMatches(names, new, orig, top, f)) THEN "InliningReproducesTheRule"
  ELSE LET f == CHOOSE f \in [top -> DOMAIN orig] : FzMatches(names, new, orig, top, f)
           from(i) == orig[f[FzOwner(names, new, i, Len(new))]]
       IN
       IF \E i \in DOMAIN new : Len(new[i].nodes) > Len(from(i).nodes) THEN "NoNewRuleHasMoreNodes"
       ELSE IF c.method \in {"acb", "quickbb"} /\
               \E i \in DOMAIN new : Len(new[i].nodes) > BMax(TdTreewidth(FzPrimal(from(i))), 0) + 1 /\ Len(from(i).nodes) <= 9
            THEN "ExactMethodHonoured"
       ELSE "ok"
=============================================================================
