-------------------------------- MODULE Axes --------------------------------
(* Pattern-sparse tensors (fggs.indices.PatternedTensor) and the dense tensors *)
(* they denote (C06, C07, C13; used by C08, C09, C14).                         *)
(*                                                                            *)
(* Axis terms (tagged records, `k` tested first):                             *)
(*   [k |-> "P", id |-> i, n |-> size]            a physical axis (identity i) *)
(*   [k |-> "X", fs |-> <<axis, ..>>]             product (<<>> = the unit axis) *)
(*   [k |-> "S", b |-> before, t |-> axis, a |-> after]   sum / embedding      *)
(* A patterned tensor:                                                        *)
(*   [ps |-> <<[id, n]>>   physical axes in storage order                      *)
(*    vs |-> <<axis>>      virtual axes                                        *)
(*    d  |-> default, ph |-> flat row-major physical values]                   *)
(* Values are integers (an encoding of floats chosen by the driver).          *)
EXTENDS Base

RECURSIVE AxNumel(_), AxIdx(_, _), AxFree(_)
AxNumel(e) == CASE e.k = "P" -> e.n
                [] e.k = "X" -> FoldLeft(LAMBDA acc, f: acc * AxNumel(f), 1, e.fs)
                [] e.k = "S" -> e.b + AxNumel(e.t) + e.a
\* the virtual index denoted under env : physical axis id -> physical index
AxIdx(e, env) == CASE e.k = "P" -> env[e.id]
                   [] e.k = "X" -> FoldLeft(LAMBDA acc, f: acc * AxNumel(f) + AxIdx(f, env), 0, e.fs)
                   [] e.k = "S" -> e.b + AxIdx(e.t, env)
\* physical axes occurring in a term, as a set of [id, n]
AxFree(e) == CASE e.k = "P" -> {[id |-> e.id, n |-> e.n]}
                [] e.k = "X" -> UNION { AxFree(e.fs[i]) : i \in DOMAIN e.fs }
                [] e.k = "S" -> AxFree(e.t)

PtVShape(pt) == [i \in DOMAIN pt.vs |-> AxNumel(pt.vs[i])]
PtPShape(pt) == [i \in DOMAIN pt.ps |-> pt.ps[i].n]
PtPIds(pt) == [i \in DOMAIN pt.ps |-> pt.ps[i].id]
PtEnv(pt, q) == [x \in BSeqSet(PtPIds(pt)) |-> q[BIndexOf(PtPIds(pt), x)]]
\* flat (1-based) virtual position backed by the physical index tuple q
PtVPos(pt, q) == BFlat(PtVShape(pt), [i \in DOMAIN pt.vs |-> AxIdx(pt.vs[i], PtEnv(pt, q))])
PtPhysTuples(pt) == BIndexTuples(PtPShape(pt))

\* representation invariant
PtWFClause(pt) ==
  IF ~BNoDup(PtPIds(pt)) THEN "PhysicalAxesDistinct"
  ELSE IF UNION { AxFree(pt.vs[i]) : i \in DOMAIN pt.vs } # { [id |-> pt.ps[i].id, n |-> pt.ps[i].n] : i \in DOMAIN pt.ps }
       THEN "PhysicalAxesAreTheFreeAxesOfVirtualAxes"
  ELSE IF \E i \in DOMAIN pt.ps : pt.ps[i].n = 1 THEN "NoPhysicalAxisOfSizeOne"
  ELSE IF Len(pt.ph) # BNumel(PtPShape(pt)) THEN "PhysicalSizeAgrees"
  ELSE IF \E q1, q2 \in PtPhysTuples(pt) : q1 # q2 /\ PtVPos(pt, q1) = PtVPos(pt, q2) THEN "AtMostOnePhysicalElementPerVirtualElement"
  ELSE "ok"

\* the dense tensor denoted, flat row-major over the virtual shape
PtDense(pt) ==
  LET N == BNumel(PtVShape(pt))
      back == { <<PtVPos(pt, q), BFlat(PtPShape(pt), q)>> : q \in PtPhysTuples(pt) }
  IN [pos \in 1..N |-> IF \E m \in back : m[1] = pos THEN pt.ph[(CHOOSE m \in back : m[1] = pos)[2]] ELSE pt.d]
\* which virtual positions are physically backed
PtSupport(pt) == { PtVPos(pt, q) : q \in PtPhysTuples(pt) }

\* reshape obligations: target is obtained from shape by merging adjacent dimensions and
\* inserting / removing dimensions of size 1  <=>  after dropping the 1s, every target
\* dimension is the product of a consecutive block of shape dimensions
AxNoOnes(s) == SelectSeq(s, LAMBDA x: x # 1)
RECURSIVE AxCoarsens(_, _)
AxCoarsens(fine, coarse) ==
  IF coarse = <<>> THEN fine = <<>>
  ELSE \E k \in 1..Len(fine) : BSeqProd(SubSeq(fine, 1, k)) = coarse[1] /\ AxCoarsens(SubSeq(fine, k + 1, Len(fine)), Tail(coarse))
MustReshape(shape, target) == BNumel(shape) = BNumel(target) /\ (BNumel(shape) = 0 \/ AxCoarsens(AxNoOnes(shape), AxNoOnes(target)))
=============================================================================
