INIT Init
NEXT Next
VIEW View
CONSTRAINT Bound
CONSTANTS Depth = 3
Rich = FALSE
INVARIANT ModelWF
PROPERTY ModelFailureAtomic
CHECK_DEADLOCK FALSE
