---------------------------- MODULE Trace_Viterbi ----------------------------
(* Batch judge for C04.  c.ag grammar (integer log-weights c.ag.wmp), c.sa the  *)
(* start assignment, c.d the returned derivation as a flat instance list        *)
(* (Derive.tla format), c.assts the assignment of every instance (per rule node, *)
(* ABSENT if the node got no value), c.vit the Viterbi-semiring sum_product      *)
(* entry at c.sa, c.dw the total log-weight of derive()'s graph + assignment.     *)
EXTENDS Derive, Semantics
VARIABLE tid
Cases == JsonDeserialize("cases.json")
Init == tid \in 1..Len(Cases)
Next == UNCHANGED tid

Rule(c, i) == DvRule(c.ag, c.d, i)
ValuesInDomain(c) == \A i \in DOMAIN c.d : /\ Len(c.assts[i]) = Len(Rule(c, i).nodes)
                                           /\ \A j \in DOMAIN c.assts[i] : c.assts[i][j] \in 0..(c.ag.nls[Rule(c, i).nodes[j]] - 1)
ExternalsAgree(c) ==
  /\ [m \in DOMAIN Rule(c, 1).ext |-> c.assts[1][Rule(c, 1).ext[m]]] = c.sa
  /\ \A i \in DOMAIN c.d : c.d[i].parent # 0 =>
       LET p == c.d[i].parent  e == Rule(c, p).edges[c.d[i].via] IN
       \A m \in DOMAIN Rule(c, i).ext : c.assts[i][Rule(c, i).ext[m]] = c.assts[p][e.att[m]]
\* total log-weight of the derivation: all terminal edges of all instances
InstW(c, i) ==
  LET r == Rule(c, i) IN
  SrProdSeq("mp", LAMBDA k: IF c.ag.els[r.edges[k].lab].t
                              THEN WeightOf("mp", c.ag, r.edges[k].lab, BFlat(ShapeOf(c.ag, r.edges[k].lab), [m \in DOMAIN r.edges[k].att |-> c.assts[i][r.edges[k].att[m]]]))
                              ELSE 0, Len(r.edges))
DerivW(c) == SrProdSeq("mp", LAMBDA i: InstW(c, i), Len(c.d))

Verdict(c) ==
  LET mu == Lfp("mp", c.ag, 60)
      best == mu.x[c.ag.start][c.sa] IN
  IF ~mu.stable \/ best = NINF \/ best = INF THEN "ok"       \* no finite attained maximum: outside the property
  ELSE IF c.out # "ok" THEN "Raised"
  ELSE IF ~DvWellFormed(c.ag, c.d) THEN "EachStepUsesARuleOfTheRewrittenNonterminal"
  ELSE IF ~DvComplete(c.ag, c.d) THEN "EveryNonterminalEdgeHasExactlyOneChild"
  ELSE IF ~ValuesInDomain(c) THEN "EveryNodeHasAValueInItsDomain"
  ELSE IF ~ExternalsAgree(c) THEN "ExternalNodesAgreeWithTheParent"
  ELSE IF DerivW(c) # best THEN "DerivationHasMaximalWeight"
  ELSE IF ~(c.vit[1] <= best /\ best <= c.vit[2]) THEN "EqualsViterbiSumProduct"
  ELSE IF c.dout # "ok" THEN "DeriveRaised"
  ELSE IF ~(c.dw[1] <= best /\ best <= c.dw[2]) THEN "DerivedGraphAndAssignmentHaveMaximalWeight"
  ELSE "ok"
\* signature of the recorded finding C04-zero-cycle: some recursive rule can be applied at log-weight 0
\* (its terminal edges admit an assignment of total weight 0), so a cycle ties with the best derivation
RuleTermBest(c, r) ==
  Max({ NINF } \cup { SrProdSeq("mp", LAMBDA k: IF c.ag.els[r.edges[k].lab].t
                           THEN WeightOf("mp", c.ag, r.edges[k].lab, BFlat(ShapeOf(c.ag, r.edges[k].lab), [m \in DOMAIN r.edges[k].att |-> a[r.edges[k].att[m]]]))
                           ELSE 0, Len(r.edges)) : a \in RuleAssts(c.ag, r) })
ZeroWeightRecursion(c) == \E i \in DOMAIN c.ag.rules : RecEdgesOfRule(c.ag, c.ag.rules[i]) # {} /\ RuleTermBest(c, c.ag.rules[i]) = 0
\* The tie-break the code documents (F_viterbi: a later rule takes the pointer only when STRICTLY better): the
\* rule pointer of (X, ea) is the FIRST rule of X, in rule order, whose value at the fixed point is the maximum;
\* inside the rule any maximising assignment may be the one recorded.  The recorded finding is: following these
\* pointers from the start can go round a cycle (of total weight 0).  It does not cover a cycle that exists only
\* under another tie-break.
FirstMaxRule(g, mu, X, ea) == Min({ i \in RulesOf(g, X) : RuleVal("mp", g, mu, g.rules[i], ea) = mu[X][ea] })
PtrSucc(g, mu, p) ==
  LET X == p[1]  ea == p[2]  r == g.rules[FirstMaxRule(g, mu, X, ea)]
      best == { a \in RuleAssts(g, r) : /\ \A k \in DOMAIN r.ext : a[r.ext[k]] = ea[k]
                                         /\ SrProdSeq("mp", LAMBDA i: EdgeVal("mp", g, mu, r.edges[i], a), Len(r.edges)) = mu[X][ea] }
  IN UNION { { <<r.edges[k].lab, [m \in DOMAIN r.edges[k].att |-> a[r.edges[k].att[m]]]>> :
                 k \in { k \in DOMAIN r.edges : ~g.els[r.edges[k].lab].t } } : a \in best }
RECURSIVE PtrReach(_, _, _, _)
PtrReach(g, mu, front, seen) ==
  LET nxt == UNION { PtrSucc(g, mu, p) : p \in front } \ seen IN
  IF nxt = {} THEN seen ELSE PtrReach(g, mu, nxt, seen \cup nxt)
FirstMaxPointersMayCycle(c) ==
  LET mu == Lfp("mp", c.ag, 60) IN
  IF ~mu.stable \/ mu.x[c.ag.start][c.sa] \in {NINF, INF} THEN FALSE
  ELSE LET R == PtrReach(c.ag, mu.x, {<<c.ag.start, c.sa>>}, {<<c.ag.start, c.sa>>}) IN
       \E p \in R : p \in PtrReach(c.ag, mu.x, {p}, {})
SigTags(c) == (IF ZeroWeightRecursion(c) THEN <<"zero_weight_recursive_rule">> ELSE <<>>)
              \o (IF c.out = "raise:RecursionError" /\ FirstMaxPointersMayCycle(c) THEN <<"first_maximal_rule_pointers_may_cycle">> ELSE <<>>) \o <<c.out>>
Judge == LET c == Cases[tid] IN PrintT(ToJson([gtid |-> c.gtid, v |-> Verdict(c), tags |-> c.tag \o SigTags(c)]))
=============================================================================
