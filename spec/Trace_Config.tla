---------------------------- MODULE Trace_Config ----------------------------
(* Batch judge for C11 (non-recursive part): one grammar, the observed results *)
(* of sum_products under the whole configuration matrix (method x j_precompute *)
(* x dtype x interpreter optimisation level x semiring, plus bin/sum_product.py)*)
(* and the observed gradients (cotangent all ones).  Every configuration must   *)
(* agree with the ONE definitional value; the cross-semiring relations are      *)
(* checked at model level (R3) on the same grammar.                            *)
EXTENDS Semantics
VARIABLE tid
Cases == JsonDeserialize("cases.json")
Init == tid \in 1..Len(Cases)
Next == UNCHANGED tid

IsAbsent(iv) == iv[1] = ABSENT
Entries(c) == UNION { { <<t, i>> : i \in 1..Len(c.ag.w[t]) } : t \in Terms(c.ag) }
ExpGrad(c, t, i) == LET dz == DZNonRec(c.ag, t, i)[c.ag.start] IN FoldSet(LAMBDA ea, acc: acc + dz[ea], 0, ExtAssts(c.ag, c.ag.start))
GradOK(c, r) == \A e \in Entries(c) : LET o == r.grads[e[1]][e[2]] x == ExpGrad(c, e[1], e[2]) IN
                   IF IsAbsent(o) THEN x = 0 ELSE o[1] <= x /\ x <= o[2]

RunClause(c, z, r) ==
  IF r.out # "ok" THEN "Raised"
  ELSE IF ~(c.ag.start \in DOMAIN r.res /\ DOMAIN r.res \subseteq Nts(c.ag)) THEN "StartSymbolHasAValue"
  ELSE IF \E X \in DOMAIN r.res : ~TensorEq(c.ag, X, r.res[X], z[r.sr][X]) THEN "SameAnswerUnderEveryConfiguration"
  ELSE IF r.hasgrad /\ ~GradOK(c, r) THEN "SameGradientUnderEveryConfiguration"
  ELSE "ok"

\* R3: Boolean result = support of the real one; max-product never exceeds sum-product
CrossSemiring(c, z) ==
  \A X \in Nts(c.ag) : \A ea \in ExtAssts(c.ag, X) :
     /\ (z["bool"][X][ea] = 1) = (z["nat"][X][ea] # 0)
     /\ z["mt"][X][ea] <= z["nat"][X][ea]

Verdict(c) ==
  LET z == [sr \in {"nat", "bool", "mt"} |-> ZNonRec(sr, c.ag)]
      bad == SelectSeq(c.runs, LAMBDA r: RunClause(c, z, r) # "ok")
  IN IF ~NonRecursive(c.ag) THEN [v |-> "GeneratorGaveRecursiveGrammar", tags |-> <<>>]
     ELSE IF ~CrossSemiring(c, z) THEN [v |-> "SPEC-INCONSISTENT", tags |-> <<>>]
     ELSE IF bad = <<>> THEN [v |-> "ok", tags |-> <<>>]
     ELSE [v |-> RunClause(c, z, bad[1]), tags |-> bad[1].tag]

\* structural signature used by recorded findings (spec-evaluated)
HasEdgelessNode(g) == \E i \in DOMAIN g.rules : LET r == g.rules[i] IN
   \E j \in DOMAIN r.nodes : \A k \in DOMAIN r.edges : ~BHas(r.edges[k].att, j)
\* some edge of a rule with >= 2 edges shares no node with the other edges (nullary edges included)
HasDisjointEdge(g) == \E i \in DOMAIN g.rules : LET r == g.rules[i] IN
   Len(r.edges) >= 2 /\ \E k \in DOMAIN r.edges :
      BSeqSet(r.edges[k].att) \cap UNION { BSeqSet(r.edges[m].att) : m \in DOMAIN r.edges \ {k} } = {}
HasRepeatedAttachment(g) == \E i \in DOMAIN g.rules : \E k \in DOMAIN g.rules[i].edges : ~BNoDup(g.rules[i].edges[k].att)
SigTags(c) == (IF HasEdgelessNode(c.ag) THEN <<"edgeless_node">> ELSE <<>>) \o (IF HasDisjointEdge(c.ag) THEN <<"edge_disjoint_from_others">> ELSE <<>>)
              \o (IF HasRepeatedAttachment(c.ag) THEN <<"repeated_attachment">> ELSE <<>>)
Judge == LET c == Cases[tid] r == Verdict(c) IN PrintT(ToJson([gtid |-> c.gtid, v |-> r.v, tags |-> r.tags \o SigTags(c)]))
=============================================================================
