------------------------------- MODULE MC_Scc -------------------------------
(* Bounded instance: TLC enumerates every digraph on 1..N (self-loops        *)
(* included) with every insertion order of every adjacency list, and dumps   *)
(* each as one JSON line for the driver (spec as enumerator of inputs).      *)
(* R3: the definitional components form a partition and admit a dependency   *)
(* order (checked for every enumerated digraph).                             *)
EXTENDS Scc
CONSTANTS MaxN, AllOrders
VARIABLE g

SuccLists(n) == IF AllOrders THEN { s \in BSeqsUpTo(1..n, n) : BNoDup(s) }
                ELSE { SetToSeq(S) : S \in SUBSET (1..n) } \cup { Reverse(SetToSeq(S)) : S \in SUBSET (1..n) }
Init == \E n \in 0..MaxN : g \in { [n |-> n, adj |-> a] : a \in [1..n -> SuccLists(n)] }
Next == UNCHANGED g

\* R3: definition sanity -- components partition the vertices, and the condensation is acyclic
DefPartition == LET C == SccComponents(g) IN
   /\ UNION C = SccVerts(g)
   /\ \A a, b \in C : a # b => a \cap b = {}
DefAcyclic == LET C == SccComponents(g) R == SccClosure(g) IN
   \A a, b \in C : a # b => ~(\E u \in a, v \in b : R[u][v]) \/ ~(\E u \in a, v \in b : R[v][u])
Dump == PrintT(ToJson(g))
=============================================================================
