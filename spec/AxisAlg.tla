------------------------------ MODULE AxisAlg ------------------------------
(* The algebra of axis terms behind every patterned-tensor operation         *)
(* (fggs.indices.Axis: unify, antiunify, stride, index, numel, fv, freshen).  *)
(*                                                                            *)
(* An axis term denotes an injective map from physical indices (an            *)
(* environment: physical axis id -> index) to a virtual index (Axes!AxIdx).   *)
(* The operations are specified by what they MEAN for these maps, not by how  *)
(* they are computed:                                                         *)
(*   unify      -- solves the equations  es[i] = fs[i]  over environments:    *)
(*                 the substitution parametrises EXACTLY the solution set,    *)
(*                 once each (pattern intersection); failure <=> no solution  *)
(*   antiunify  -- a generalisation g with two instantiations that give back  *)
(*                 es and fs (pattern join)                                   *)
(*   stride     -- the affine form  offset + sum stride[x] * env[x]  of AxIdx *)
(*   index      -- the partial inverse of AxIdx                               *)
(*                                                                            *)
(* Index types (what "well typed" means; the enumerator AaTerms is typed):    *)
(*   [k |-> "n", n |-> size, key]        an atomic index set                  *)
(*   [k |-> "x", fs |-> <<type>>, key]   a product                            *)
(*   [k |-> "s", b, t, a, key]           an embedding  b + t + a              *)
(*   [k |-> "u", fs |-> <<type>>, key]   a disjoint union (a term backs ONE   *)
(*                                       summand)                             *)
(* `key` numbers the types up to structural equality: a physical axis stands  *)
(* for indices of one type only, so its id is derived from the key.           *)
EXTENDS Axes

RECURSIVE TyNumel(_)
TyNumel(ty) == CASE ty.k = "n" -> ty.n
                 [] ty.k = "x" -> FoldLeft(LAMBDA acc, f: acc * TyNumel(f), 1, ty.fs)
                 [] ty.k = "s" -> ty.b + TyNumel(ty.t) + ty.a
                 [] ty.k = "u" -> FoldLeft(LAMBDA acc, f: acc + TyNumel(f), 0, ty.fs)

\* all sequences whose i-th element is drawn from sets[i]
RECURSIVE AaSeqProduct(_)
AaSeqProduct(sets) == IF sets = <<>> THEN {<<>>}
                      ELSE { <<h>> \o t : h \in sets[1], t \in AaSeqProduct(Tail(sets)) }

\* every axis term of index type ty whose physical axes are drawn from K copies per type, ids off + 10 key + j
RECURSIVE AaTerms(_, _, _)
AaTerms(ty, K, off) ==
  LET n == TyNumel(ty)
      whole == IF n = 1 THEN {[k |-> "X", fs |-> <<>>]}
               ELSE { [k |-> "P", id |-> off + 10 * ty.key + j, n |-> n] : j \in 1..K }
  IN CASE ty.k = "n" -> whole
       [] ty.k = "x" -> whole \cup { [k |-> "X", fs |-> fs] : fs \in AaSeqProduct([i \in DOMAIN ty.fs |-> AaTerms(ty.fs[i], K, off)]) }
       [] ty.k = "s" -> whole \cup { [k |-> "S", b |-> ty.b, t |-> t, a |-> ty.a] : t \in AaTerms(ty.t, K, off) }
       [] ty.k = "u" -> whole \cup UNION { { [k |-> "S", b |-> BSeqSum([j \in 1..(i - 1) |-> TyNumel(ty.fs[j])]), t |-> t,
                                              a |-> BSeqSum([j \in 1..(Len(ty.fs) - i) |-> TyNumel(ty.fs[i + j])])] :
                                            t \in AaTerms(ty.fs[i], K, off) } : i \in DOMAIN ty.fs }

\* ------------------------------------------------------------ environments
AaFreeSeq(es) == UNION { AxFree(es[i]) : i \in DOMAIN es }
AaIds(fa) == { p.id : p \in fa }
AaEnvs(fa) == LET m == Max({1} \cup { p.n : p \in fa }) IN
              { env \in [AaIds(fa) -> 0..(m - 1)] : \A p \in fa : env[p.id] < p.n }
AaVal(es, env) == [i \in DOMAIN es |-> AxIdx(es[i], env)]
\* a list of axes is a pattern: distinct environments give distinct virtual index tuples
AaInjective(es) == LET E == AaEnvs(AaFreeSeq(es)) IN Cardinality({ AaVal(es, env) : env \in E }) = Cardinality(E)

\* ------------------------------------------------------------------ unify
(* c.xs : <<[id, n]>> every physical axis of es and fs;  c.sg : <<term>> the substitution applied to  *)
(* each of them (an unbound axis is itself);  c.ok : what unify returned.                            *)
AaX(c) == { [id |-> c.xs[i].id, n |-> c.xs[i].n] : i \in DOMAIN c.xs }
AaSol(c) == { env \in AaEnvs(AaX(c)) : \A i \in DOMAIN c.es : AxIdx(c.es[i], env) = AxIdx(c.fs[i], env) }
AaParamEnvs(c) == AaEnvs(AaFreeSeq(c.sg))
AaParam(c) == { [x \in AaIds(AaX(c)) |-> AxIdx(c.sg[BIndexOf([i \in DOMAIN c.xs |-> c.xs[i].id], x)], e2)] : e2 \in AaParamEnvs(c) }
UnifyClause(c) ==
  IF ~c.ok THEN (IF AaSol(c) = {} THEN "ok" ELSE "UnifyFailsOnlyOnDisjointPatterns")
  ELSE IF \E i \in DOMAIN c.xs : AxNumel(c.sg[i]) # c.xs[i].n THEN "SubstitutionKeepsAxisSizes"
  ELSE IF ~(AaParam(c) \subseteq AaSol(c)) THEN "UnifierSolvesTheEquations"
  ELSE IF ~(AaSol(c) \subseteq AaParam(c)) THEN "UnifierIsTheWholeIntersection"
  ELSE IF Cardinality(AaParam(c)) # Cardinality(AaParamEnvs(c)) THEN "UnifierBacksEachSolutionOnce"
  ELSE "ok"


(* ------------------------------------------------------------------------------------------------------------------ *)
(* DESCRIPTIVE: Axis.unify as the library computes it today (fggs/indices.py), transcribed case by case.  It exists  *)
(* to show at design level (R3, MC_AxisAlg!ModelUnifierIsMostGeneral) that the algorithm IS a most-general-unifier    *)
(* procedure on every typed pair of the bound, and to report drift when the code stops following it.  It never gates. *)
(* State threaded through: st = [sg |-> <<[id, t]>> bindings (latest first), nx |-> next fresh axis id, ok].           *)
AuBound(st, id) == \E i \in DOMAIN st.sg : st.sg[i].id = id
AuGet(st, id) == st.sg[CHOOSE i \in DOMAIN st.sg : st.sg[i].id = id].t
RECURSIVE AuLookup(_, _)
AuLookup(st, e) == IF e.k = "P" /\ AuBound(st, e.id) THEN AuLookup(st, AuGet(st, e.id)) ELSE e
\* a SumAxis with nothing before or after it is just its term
RECURSIVE AuStrip(_, _)
AuStrip(st, e) == IF e.k = "S" /\ e.b = 0 /\ e.a = 0 THEN AuStrip(st, AuLookup(st, e.t)) ELSE e
AuBind(st, id, t) == [st EXCEPT !.sg = <<[id |-> id, t |-> t]>> \o @]
AuFail(st) == [st EXCEPT !.ok = FALSE]
AuUnit == [k |-> "X", fs |-> <<>>]
\* the smart constructor: nested products are flattened, a product of one factor is that factor
AuFlat(fs) == FoldLeft(LAMBDA acc, f: IF f.k = "X" THEN acc \o f.fs ELSE Append(acc, f), <<>>, fs)
AuProd(fs) == LET g == AuFlat(fs) IN IF Len(g) = 1 THEN g[1] ELSE [k |-> "X", fs |-> g]
AuZero(e) == AxNumel(e) = 0
RECURSIVE AuUnify(_, _, _), AuProdLoop(_, _, _), AuAllUnit(_, _)
\* es, fs: the factor lists still to be matched, consumed FROM THE END (mixed radix: the last factor is least significant)
AuProdLoop(st, es, fs) ==
  IF ~st.ok THEN st
  ELSE IF es = <<>> \/ fs = <<>> THEN AuAllUnit(st, es \o fs)
  ELSE LET e9 == es[Len(es)]  f9 == fs[Len(fs)]
           es1 == SubSeq(es, 1, Len(es) - 1)  fs1 == SubSeq(fs, 1, Len(fs) - 1)
           m == AxNumel(e9)  n == AxNumel(f9) IN
       IF m = n THEN AuProdLoop(AuUnify(st, e9, f9), es1, fs1)
       ELSE IF m < n THEN (IF m = 0 \/ n % m # 0 THEN AuFail(st)
                           ELSE LET kk == [k |-> "P", id |-> st.nx, n |-> n \div m]
                                    st1 == AuUnify([st EXCEPT !.nx = @ + 1], f9, AuProd(<<kk, e9>>)) IN
                                AuProdLoop(st1, es1, Append(fs1, kk)))
       ELSE (IF n = 0 \/ m % n # 0 THEN AuFail(st)
             ELSE LET kk == [k |-> "P", id |-> st.nx, n |-> m \div n]
                      st1 == AuUnify([st EXCEPT !.nx = @ + 1], e9, AuProd(<<kk, f9>>)) IN
                  AuProdLoop(st1, Append(es1, kk), fs1))
AuAllUnit(st, rest) == FoldLeft(LAMBDA acc, e: IF acc.ok THEN AuUnify(acc, e, AuUnit) ELSE acc, st, rest)
AuUnify(st, e0, f0) ==
  IF ~st.ok THEN st
  ELSE LET e == AuStrip(st, AuLookup(st, e0))  f == AuStrip(st, AuLookup(st, f0)) IN
       IF e = f THEN st
       ELSE IF e.k = "X" /\ f.k = "X" THEN (IF AuZero(e) THEN st ELSE AuProdLoop(st, e.fs, f.fs))
       ELSE IF e.k = "S" /\ f.k = "S" THEN (IF e.b = f.b /\ e.a = f.a THEN AuUnify(st, e.t, f.t) ELSE AuFail(st))
       ELSE IF e.k = "P" THEN AuBind(st, e.id, f)
       ELSE IF f.k = "P" THEN AuBind(st, f.id, e)
       ELSE IF e = AuUnit /\ f.k = "S" THEN (IF f.b = 0 /\ f.a = 0 THEN AuUnify(st, e, f.t) ELSE AuFail(st))
       ELSE IF f = AuUnit /\ e.k = "S" THEN (IF e.b = 0 /\ e.a = 0 THEN AuUnify(st, f, e.t) ELSE AuFail(st))
       ELSE AuFail(st)
\* the lists es, fs unified pair by pair under one substitution, stopping at the first failure (as all(...) does)
AuUnifyLists(es, fs, nx) ==
  FoldLeft(LAMBDA acc, i: IF acc.ok THEN AuUnify(acc, es[i], fs[i]) ELSE acc, [sg |-> <<>>, nx |-> nx, ok |-> TRUE], BIota(Len(es)))
\* the substitution applied to a term, to the end of every forwarding chain
RECURSIVE AuApply(_, _)
AuApply(st, e) ==
  CASE e.k = "P" -> (IF AuBound(st, e.id) THEN AuApply(st, AuGet(st, e.id)) ELSE e)
    [] e.k = "X" -> [k |-> "X", fs |-> [i \in DOMAIN e.fs |-> AuApply(st, e.fs[i])]]
    [] e.k = "S" -> [k |-> "S", b |-> e.b, t |-> AuApply(st, e.t), a |-> e.a]
\* the model's run presented like an observed case (UnifyClause applies to it)
AuAsCase(es, fs) ==
  LET X == AaFreeSeq(es) \cup AaFreeSeq(fs)
      xs == SetToSeq(X)
      st == AuUnifyLists(es, fs, 9000) IN
  [es |-> es, fs |-> fs, ok |-> st.ok, xs |-> [i \in DOMAIN xs |-> [id |-> xs[i].id, n |-> xs[i].n]],
   sg |-> [i \in DOMAIN xs |-> IF st.ok THEN AuApply(st, [k |-> "P", id |-> xs[i].id, n |-> xs[i].n]) ELSE [k |-> "P", id |-> xs[i].id, n |-> xs[i].n]]]

\* -------------------------------------------------------------- antiunify
(* c.gs : <<term>> the generalisations;  c.an : <<[id, n, l |-> term, r |-> term]>> the anti-substitution *)
RECURSIVE AaSubst(_, _, _)
AaSubst(e, an, side) ==
  CASE e.k = "P" -> (IF \E i \in DOMAIN an : an[i].id = e.id
                     THEN LET b == an[CHOOSE i \in DOMAIN an : an[i].id = e.id] IN IF side = "l" THEN b.l ELSE b.r
                     ELSE e)
    [] e.k = "X" -> [k |-> "X", fs |-> [i \in DOMAIN e.fs |-> AaSubst(e.fs[i], an, side)]]
    [] e.k = "S" -> [k |-> "S", b |-> e.b, t |-> AaSubst(e.t, an, side), a |-> e.a]
AaSame(es1, es2, fa) == AaFreeSeq(es1) \subseteq fa /\ \A env \in AaEnvs(fa) : AaVal(es1, env) = AaVal(es2, env)
AntiunifyClause(c) ==
  LET gl == [i \in DOMAIN c.gs |-> AaSubst(c.gs[i], c.an, "l")]
      gr == [i \in DOMAIN c.gs |-> AaSubst(c.gs[i], c.an, "r")] IN
  IF \E i \in DOMAIN c.an : c.an[i].n # AxNumel(c.an[i].l) \/ c.an[i].n # AxNumel(c.an[i].r) THEN "GeneralisationKeepsAxisSizes"
  ELSE IF \E i \in DOMAIN c.gs : AxNumel(c.gs[i]) # AxNumel(c.es[i]) THEN "GeneralisationKeepsAxisSizes"
  ELSE IF ~(AaFreeSeq(c.gs) \subseteq { [id |-> c.an[i].id, n |-> c.an[i].n] : i \in DOMAIN c.an }) THEN "GeneralisationUsesOnlyNewAxes"
  ELSE IF ~AaSame(gl, c.es, AaFreeSeq(c.es)) THEN "GeneralisationInstantiatesToTheLeftOperand"
  ELSE IF ~AaSame(gr, c.fs, AaFreeSeq(c.fs)) THEN "GeneralisationInstantiatesToTheRightOperand"
  ELSE "ok"


(* DESCRIPTIVE: Axis.antiunify as the library computes it (least general generalisation with a memo of generalised pairs;    *)
(* product axes are cut into chunks of equal size from the left, one-element factors pair up).  R3                          *)
(* MC_AxisAlg!ModelGeneralisationInstantiates: on every typed pair the result satisfies AntiunifyClause.  Never gates.      *)
(* st = [an |-> <<[id, n, l, r]>>, nx |-> next fresh id];  operators return [st, t].                                         *)
AnExtend(st, e, f) ==
  IF \E i \in DOMAIN st.an : st.an[i].l = e /\ st.an[i].r = f
  THEN LET b == st.an[CHOOSE i \in DOMAIN st.an : st.an[i].l = e /\ st.an[i].r = f] IN [st |-> st, t |-> [k |-> "P", id |-> b.id, n |-> b.n]]
  ELSE [st |-> [an |-> Append(st.an, [id |-> st.nx, n |-> AxNumel(e), l |-> e, r |-> f]), nx |-> st.nx + 1],
        t |-> [k |-> "P", id |-> st.nx, n |-> AxNumel(e)]]
AnIsProd(e) == e.k = "X"
RECURSIVE AnAnti(_, _, _), AnChunks(_, _, _, _, _, _, _, _, _, _)
\* el, er, fl, fr: 0-based cut positions as in the code; en, fn: sizes of the pending chunks; ret: the chunks emitted so far
AnChunks(st, es, fs, el, er, fl, fr, en, fn, ret) ==
  IF ~(el < Len(es) \/ fl < Len(fs)) THEN [st |-> st, t |-> AuProd(ret)]
  ELSE IF en = fn /\ (el < er \/ fl < fr) THEN
       LET e1 == AuProd(SubSeq(es, el + 1, er))  f1 == AuProd(SubSeq(fs, fl + 1, fr))
           r == IF AnIsProd(e1) /\ AnIsProd(f1) THEN AnExtend(st, e1, f1) ELSE AnAnti(st, e1, f1) IN
       AnChunks(r.st, es, fs, er, er, fr, fr, en, fn, Append(ret, r.t))
  ELSE IF en = fn /\ er < Len(es) /\ fr < Len(fs) THEN
       AnChunks(st, es, fs, el, er + 1, fl, fr + 1, en * AxNumel(es[er + 1]), fn * AxNumel(fs[fr + 1]), ret)
  ELSE IF en < fn \/ fr = Len(fs) THEN
       AnChunks(st, es, fs, el, er + 1, fl, fr, en * AxNumel(es[er + 1]), fn, ret)
  ELSE AnChunks(st, es, fs, el, er, fl, fr + 1, en, fn * AxNumel(fs[fr + 1]), ret)
AnAnti(st, e, f) ==
  IF AnIsProd(e) /\ AnIsProd(f) /\ ~AuZero(e) /\ ~AuZero(f) THEN AnChunks(st, e.fs, f.fs, 0, 0, 0, 0, 1, 1, <<>>)
  ELSE IF e.k = "S" /\ f.k = "S" /\ e.b = f.b /\ e.a = f.a THEN
       LET r == AnAnti(st, e.t, f.t) IN [st |-> r.st, t |-> [k |-> "S", b |-> e.b, t |-> r.t, a |-> e.a]]
  ELSE AnExtend(st, e, f)
\* the lists generalised pair by pair under one anti-substitution, presented like an observed case
AnAsCase(es, fs) ==
  LET r == FoldLeft(LAMBDA acc, i: LET x == AnAnti(acc.st, es[i], fs[i]) IN [st |-> x.st, gs |-> Append(acc.gs, x.t)],
                    [st |-> [an |-> <<>>, nx |-> 9500], gs |-> <<>>], BIota(Len(es))) IN
  [es |-> es, fs |-> fs, gs |-> r.gs, an |-> r.st.an]

\* ----------------------------------------------------------- stride, index
(* c.e term; c.off; c.st : <<[id, c]>> coefficients                                                     *)
StrideClause(c) ==
  LET fa == AxFree(c.e)
      coef(x) == IF \E i \in DOMAIN c.st : c.st[i].id = x THEN c.st[CHOOSE i \in DOMAIN c.st : c.st[i].id = x].c ELSE 0 IN
  IF \E i \in DOMAIN c.st : c.st[i].id \notin AaIds(fa) /\ c.st[i].c # 0 THEN "StrideMentionsOnlyFreeAxes"
  ELSE IF \E env \in AaEnvs(fa) : AxIdx(c.e, env) # c.off + FoldSet(LAMBDA x, acc: acc + coef(x) * env[x], 0, AaIds(fa)) THEN "StrideIsTheAffineMap"
  ELSE "ok"
(* c.e term; c.ix : for each virtual index v (position v+1) [ok, ph |-> <<[id, i]>>]                      *)
IndexClause(c) ==
  LET fa == AxFree(c.e) E == AaEnvs(fa) IN
  IF Len(c.ix) # AxNumel(c.e) THEN "IndexDefinedOnEveryVirtualIndex"
  ELSE IF \E v \in 0..(AxNumel(c.e) - 1) :
            LET r == c.ix[v + 1] hit == { env \in E : AxIdx(c.e, env) = v } IN
            IF hit = {} THEN r.ok
            ELSE ~r.ok \/ ~(\E env \in hit : \A x \in AaIds(fa) : \E j \in DOMAIN r.ph : r.ph[j].id = x /\ r.ph[j].i = env[x])
       THEN "IndexInvertsTheAxis"
  ELSE "ok"
(* c.e term; c.numel, c.zero, c.fv : <<id>>; c.fr : the freshened term, c.rn : <<[a, b]>> the renaming     *)
RECURSIVE AaRename(_, _)
AaRename(e, rn) ==
  CASE e.k = "P" -> (IF \E i \in DOMAIN rn : rn[i].a = e.id THEN [k |-> "P", id |-> rn[CHOOSE i \in DOMAIN rn : rn[i].a = e.id].b, n |-> e.n] ELSE e)
    [] e.k = "X" -> [k |-> "X", fs |-> [i \in DOMAIN e.fs |-> AaRename(e.fs[i], rn)]]
    [] e.k = "S" -> [k |-> "S", b |-> e.b, t |-> AaRename(e.t, rn), a |-> e.a]
BasicsClause(c) ==
  IF c.numel # AxNumel(c.e) THEN "NumelIsTheSizeOfTheIndexSet"
  ELSE IF c.zero # (AxNumel(c.e) = 0) THEN "ZeroIffEmptyIndexSet"
  ELSE IF BSeqSet(c.fv) # AaIds(AxFree(c.e)) THEN "FreeAxesAreThePhysicalAxesOfTheTerm"
  ELSE IF ~BNoDup([i \in DOMAIN c.rn |-> c.rn[i].b]) \/ \E i \in DOMAIN c.rn : c.rn[i].b \in AaIds(AxFree(c.e)) THEN "FreshenInventsNewAxes"
  ELSE IF AaRename(c.e, c.rn) # c.fr THEN "FreshenRenamesConsistently"
  ELSE IF ~c.alpha THEN "AlphaAcceptsTheFreshenedCopy"
  ELSE "ok"
=============================================================================
