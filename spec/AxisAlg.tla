------------------------------ MODULE AxisAlg ------------------------------
(* The algebra of axis terms behind every patterned-tensor operation         *)
(* (fggs.indices.Axis: unify, antiunify, stride, index, numel, fv, freshen).  *)
(*                                                                            *)
(* An axis term denotes an injective map from physical indices (an            *)
(* environment: physical axis id -> index) to a virtual index (Axes!AxIdx).   *)
(* The operations are specified by what they MEAN for these maps, not by how  *)
(* they are computed:                                                         *)
(*   unify      -- solves the equations  es[i] = fs[i]  over environments:    *)
(*                 the substitution parametrises EXACTLY the solution set,    *)
(*                 once each (pattern intersection); failure <=> no solution  *)
(*   antiunify  -- a generalisation g with two instantiations that give back  *)
(*                 es and fs (pattern join)                                   *)
(*   stride     -- the affine form  offset + sum stride[x] * env[x]  of AxIdx *)
(*   index      -- the partial inverse of AxIdx                               *)
(*                                                                            *)
(* Index types (what "well typed" means; the enumerator AaTerms is typed):    *)
(*   [k |-> "n", n |-> size, key]        an atomic index set                  *)
(*   [k |-> "x", fs |-> <<type>>, key]   a product                            *)
(*   [k |-> "s", b, t, a, key]           an embedding  b + t + a              *)
(*   [k |-> "u", fs |-> <<type>>, key]   a disjoint union (a term backs ONE   *)
(*                                       summand)                             *)
(* `key` numbers the types up to structural equality: a physical axis stands  *)
(* for indices of one type only, so its id is derived from the key.           *)
EXTENDS Axes

RECURSIVE TyNumel(_)
TyNumel(ty) == CASE ty.k = "n" -> ty.n
                 [] ty.k = "x" -> FoldLeft(LAMBDA acc, f: acc * TyNumel(f), 1, ty.fs)
                 [] ty.k = "s" -> ty.b + TyNumel(ty.t) + ty.a
                 [] ty.k = "u" -> FoldLeft(LAMBDA acc, f: acc + TyNumel(f), 0, ty.fs)

\* all sequences whose i-th element is drawn from sets[i]
RECURSIVE AaSeqProduct(_)
AaSeqProduct(sets) == IF sets = <<>> THEN {<<>>}
                      ELSE { <<h>> \o t : h \in sets[1], t \in AaSeqProduct(Tail(sets)) }

\* every axis term of index type ty whose physical axes are drawn from K copies per type, ids off + 10 key + j
RECURSIVE AaTerms(_, _, _)
AaTerms(ty, K, off) ==
  LET n == TyNumel(ty)
      whole == IF n = 1 THEN {[k |-> "X", fs |-> <<>>]}
               ELSE { [k |-> "P", id |-> off + 10 * ty.key + j, n |-> n] : j \in 1..K }
  IN CASE ty.k = "n" -> whole
       [] ty.k = "x" -> whole \cup { [k |-> "X", fs |-> fs] : fs \in AaSeqProduct([i \in DOMAIN ty.fs |-> AaTerms(ty.fs[i], K, off)]) }
       [] ty.k = "s" -> whole \cup { [k |-> "S", b |-> ty.b, t |-> t, a |-> ty.a] : t \in AaTerms(ty.t, K, off) }
       [] ty.k = "u" -> whole \cup UNION { { [k |-> "S", b |-> BSeqSum([j \in 1..(i - 1) |-> TyNumel(ty.fs[j])]), t |-> t,
                                              a |-> BSeqSum([j \in 1..(Len(ty.fs) - i) |-> TyNumel(ty.fs[i + j])])] :
                                            t \in AaTerms(ty.fs[i], K, off) } : i \in DOMAIN ty.fs }

\* ------------------------------------------------------------ environments
AaFreeSeq(es) == UNION { AxFree(es[i]) : i \in DOMAIN es }
AaIds(fa) == { p.id : p \in fa }
AaEnvs(fa) == LET m == Max({1} \cup { p.n : p \in fa }) IN
              { env \in [AaIds(fa) -> 0..(m - 1)] : \A p \in fa : env[p.id] < p.n }
AaVal(es, env) == [i \in DOMAIN es |-> AxIdx(es[i], env)]
\* a list of axes is a pattern: distinct environments give distinct virtual index tuples
AaInjective(es) == LET E == AaEnvs(AaFreeSeq(es)) IN Cardinality({ AaVal(es, env) : env \in E }) = Cardinality(E)

\* ------------------------------------------------------------------ unify
(* c.xs : <<[id, n]>> every physical axis of es and fs;  c.sg : <<term>> the substitution applied to  *)
(* each of them (an unbound axis is itself);  c.ok : what unify returned.                            *)
AaX(c) == { [id |-> c.xs[i].id, n |-> c.xs[i].n] : i \in DOMAIN c.xs }
AaSol(c) == { env \in AaEnvs(AaX(c)) : \A i \in DOMAIN c.es : AxIdx(c.es[i], env) = AxIdx(c.fs[i], env) }
AaParamEnvs(c) == AaEnvs(AaFreeSeq(c.sg))
AaParam(c) == { [x \in AaIds(AaX(c)) |-> AxIdx(c.sg[BIndexOf([i \in DOMAIN c.xs |-> c.xs[i].id], x)], e2)] : e2 \in AaParamEnvs(c) }
UnifyClause(c) ==
  IF ~c.ok THEN (IF AaSol(c) = {} THEN "ok" ELSE "UnifyFailsOnlyOnDisjointPatterns")
  ELSE IF \E i \in DOMAIN c.xs : AxNumel(c.sg[i]) # c.xs[i].n THEN "SubstitutionKeepsAxisSizes"
  ELSE IF ~(AaParam(c) \subseteq AaSol(c)) THEN "UnifierSolvesTheEquations"
  ELSE IF ~(AaSol(c) \subseteq AaParam(c)) THEN "UnifierIsTheWholeIntersection"
  ELSE IF Cardinality(AaParam(c)) # Cardinality(AaParamEnvs(c)) THEN "UnifierBacksEachSolutionOnce"
  ELSE "ok"

\* -------------------------------------------------------------- antiunify
(* c.gs : <<term>> the generalisations;  c.an : <<[id, n, l |-> term, r |-> term]>> the anti-substitution *)
RECURSIVE AaSubst(_, _, _)
AaSubst(e, an, side) ==
  CASE e.k = "P" -> (IF \E i \in DOMAIN an : an[i].id = e.id
                     THEN LET b == an[CHOOSE i \in DOMAIN an : an[i].id = e.id] IN IF side = "l" THEN b.l ELSE b.r
                     ELSE e)
    [] e.k = "X" -> [k |-> "X", fs |-> [i \in DOMAIN e.fs |-> AaSubst(e.fs[i], an, side)]]
    [] e.k = "S" -> [k |-> "S", b |-> e.b, t |-> AaSubst(e.t, an, side), a |-> e.a]
AaSame(es1, es2, fa) == AaFreeSeq(es1) \subseteq fa /\ \A env \in AaEnvs(fa) : AaVal(es1, env) = AaVal(es2, env)
AntiunifyClause(c) ==
  LET gl == [i \in DOMAIN c.gs |-> AaSubst(c.gs[i], c.an, "l")]
      gr == [i \in DOMAIN c.gs |-> AaSubst(c.gs[i], c.an, "r")] IN
  IF \E i \in DOMAIN c.an : c.an[i].n # AxNumel(c.an[i].l) \/ c.an[i].n # AxNumel(c.an[i].r) THEN "GeneralisationKeepsAxisSizes"
  ELSE IF \E i \in DOMAIN c.gs : AxNumel(c.gs[i]) # AxNumel(c.es[i]) THEN "GeneralisationKeepsAxisSizes"
  ELSE IF ~(AaFreeSeq(c.gs) \subseteq { [id |-> c.an[i].id, n |-> c.an[i].n] : i \in DOMAIN c.an }) THEN "GeneralisationUsesOnlyNewAxes"
  ELSE IF ~AaSame(gl, c.es, AaFreeSeq(c.es)) THEN "GeneralisationInstantiatesToTheLeftOperand"
  ELSE IF ~AaSame(gr, c.fs, AaFreeSeq(c.fs)) THEN "GeneralisationInstantiatesToTheRightOperand"
  ELSE "ok"

\* ----------------------------------------------------------- stride, index
(* c.e term; c.off; c.st : <<[id, c]>> coefficients                                                     *)
StrideClause(c) ==
  LET fa == AxFree(c.e)
      coef(x) == IF \E i \in DOMAIN c.st : c.st[i].id = x THEN c.st[CHOOSE i \in DOMAIN c.st : c.st[i].id = x].c ELSE 0 IN
  IF \E i \in DOMAIN c.st : c.st[i].id \notin AaIds(fa) /\ c.st[i].c # 0 THEN "StrideMentionsOnlyFreeAxes"
  ELSE IF \E env \in AaEnvs(fa) : AxIdx(c.e, env) # c.off + FoldSet(LAMBDA x, acc: acc + coef(x) * env[x], 0, AaIds(fa)) THEN "StrideIsTheAffineMap"
  ELSE "ok"
(* c.e term; c.ix : for each virtual index v (position v+1) [ok, ph |-> <<[id, i]>>]                      *)
IndexClause(c) ==
  LET fa == AxFree(c.e) E == AaEnvs(fa) IN
  IF Len(c.ix) # AxNumel(c.e) THEN "IndexDefinedOnEveryVirtualIndex"
  ELSE IF \E v \in 0..(AxNumel(c.e) - 1) :
            LET r == c.ix[v + 1] hit == { env \in E : AxIdx(c.e, env) = v } IN
            IF hit = {} THEN r.ok
            ELSE ~r.ok \/ ~(\E env \in hit : \A x \in AaIds(fa) : \E j \in DOMAIN r.ph : r.ph[j].id = x /\ r.ph[j].i = env[x])
       THEN "IndexInvertsTheAxis"
  ELSE "ok"
(* c.e term; c.numel, c.zero, c.fv : <<id>>; c.fr : the freshened term, c.rn : <<[a, b]>> the renaming     *)
RECURSIVE AaRename(_, _)
AaRename(e, rn) ==
  CASE e.k = "P" -> (IF \E i \in DOMAIN rn : rn[i].a = e.id THEN [k |-> "P", id |-> rn[CHOOSE i \in DOMAIN rn : rn[i].a = e.id].b, n |-> e.n] ELSE e)
    [] e.k = "X" -> [k |-> "X", fs |-> [i \in DOMAIN e.fs |-> AaRename(e.fs[i], rn)]]
    [] e.k = "S" -> [k |-> "S", b |-> e.b, t |-> AaRename(e.t, rn), a |-> e.a]
BasicsClause(c) ==
  IF c.numel # AxNumel(c.e) THEN "NumelIsTheSizeOfTheIndexSet"
  ELSE IF c.zero # (AxNumel(c.e) = 0) THEN "ZeroIffEmptyIndexSet"
  ELSE IF BSeqSet(c.fv) # AaIds(AxFree(c.e)) THEN "FreeAxesAreThePhysicalAxesOfTheTerm"
  ELSE IF ~BNoDup([i \in DOMAIN c.rn |-> c.rn[i].b]) \/ \E i \in DOMAIN c.rn : c.rn[i].b \in AaIds(AxFree(c.e)) THEN "FreshenInventsNewAxes"
  ELSE IF AaRename(c.e, c.rn) # c.fr THEN "FreshenRenamesConsistently"
  ELSE IF ~c.alpha THEN "AlphaAcceptsTheFreshenedCopy"
  ELSE "ok"
=============================================================================
