------------------------------ MODULE TreeDec ------------------------------
(* Tree decompositions, treewidth and the elimination game, by definition    *)
(* (C10; used by C05).  A graph is [n |-> N, adj |-> <<nbrs_1,..,nbrs_N>>]   *)
(* over vertices 1..N (nbrs_v a sequence, symmetric, no self-loops).         *)
(* A tree decomposition is [bags |-> <<bag_1,..>>, tedges |-> <<<<i,j>>,..>>] *)
(* with bag_i a sequence of vertices and <<i,j>> an edge between bag i and j. *)
EXTENDS Base

TdV(g) == 1..g.n
TdAdj(g, u, v) == BHas(g.adj[u], v)
TdNbrs(g, v) == BSeqSet(g.adj[v])
TdEdges(g) == { e \in TdV(g) \X TdV(g) : e[1] < e[2] /\ TdAdj(g, e[1], e[2]) }

\* connectivity of a vertex set S in an undirected graph given by adjacency predicate
\* (nb is a FUNCTION from elements to neighbour sets -- no operator arguments in recursion)
RECURSIVE TdGrow(_, _, _)
TdGrow(S, front, nb) ==
  LET nxt == (UNION { nb[x] : x \in front }) \cap S IN
  IF nxt \subseteq front THEN front ELSE TdGrow(S, front \cup nxt, nb)
TdConnectedSet(S, nb) == S = {} \/ (LET r == CHOOSE x \in S : TRUE IN TdGrow(S, {r}, nb) = S)

\* ---------------------------------------------------------------- validity
TdBagSet(t, i) == BSeqSet(t.bags[i])
TdTreeNbrs(t, i) == { j \in DOMAIN t.bags : \E k \in DOMAIN t.tedges :
                         t.tedges[k] = <<i, j>> \/ t.tedges[k] = <<j, i>> }
TdTreeEdgeSet(t) == { {t.tedges[k][1], t.tedges[k][2]} : k \in DOMAIN t.tedges }

TdIsTree(t) ==
  /\ Len(t.bags) >= 1
  /\ \A k \in DOMAIN t.tedges : t.tedges[k][1] \in DOMAIN t.bags /\ t.tedges[k][2] \in DOMAIN t.bags
                                /\ t.tedges[k][1] # t.tedges[k][2]
  /\ Cardinality(TdTreeEdgeSet(t)) = Len(t.bags) - 1          \* acyclic given connected
  /\ TdConnectedSet(DOMAIN t.bags, [i \in DOMAIN t.bags |-> TdTreeNbrs(t, i)])
TdBagsInGraph(g, t) == \A i \in DOMAIN t.bags : TdBagSet(t, i) \subseteq TdV(g) /\ BNoDup(t.bags[i])
TdVertexCover(g, t) == \A v \in TdV(g) : \E i \in DOMAIN t.bags : v \in TdBagSet(t, i)
TdEdgeCover(g, t) == \A e \in TdEdges(g) : \E i \in DOMAIN t.bags : e[1] \in TdBagSet(t, i) /\ e[2] \in TdBagSet(t, i)
TdRunningIntersection(g, t) ==
  \A v \in TdV(g) : LET B == { i \in DOMAIN t.bags : v \in TdBagSet(t, i) } IN
     TdConnectedSet(B, [i \in DOMAIN t.bags |-> TdTreeNbrs(t, i)])
TdWidth(t) == Max({ Len(t.bags[i]) : i \in DOMAIN t.bags }) - 1

TdInvalidClause(g, t) ==
  IF ~TdBagsInGraph(g, t) THEN "BagsAreVertexSets"
  ELSE IF ~TdIsTree(t) THEN "BagsFormATree"
  ELSE IF ~TdVertexCover(g, t) THEN "EveryVertexCovered"
  ELSE IF ~TdEdgeCover(g, t) THEN "EveryEdgeCovered"
  ELSE IF ~TdRunningIntersection(g, t) THEN "ConnectedSubtreePerVertex"
  ELSE "ok"

\* --------------------------------------------------------------- treewidth
\* Q(S, v): vertices outside S and v reachable from v through S  (Bodlaender et al.)
TdQ(g, S, v) ==
  LET reach == TdGrow(S \cup {v}, {v}, [x \in TdV(g) |-> TdNbrs(g, x)])
  IN { w \in TdV(g) \ (S \cup {v}) : \E x \in reach : TdAdj(g, x, w) }
TdTreewidth(g) ==
  IF g.n = 0 THEN -1 ELSE
  LET f[S \in SUBSET TdV(g)] ==
        IF S = {} THEN 0
        ELSE Min({ BMax(f[S \ {v}], Cardinality(TdQ(g, S \ {v}, v))) : v \in S })
  IN f[TdV(g)]

\* --------------------------------------------------------- elimination game
\* state of the game: symmetric neighbour function over the remaining vertices
TdNbrFun(g) == [v \in TdV(g) |-> TdNbrs(g, v)]
TdEliminate(nb, v) ==
  [u \in (DOMAIN nb) \ {v} |->
     IF u \in nb[v] THEN (nb[u] \cup nb[v]) \ {u, v} ELSE nb[u]]
\* width of an elimination order = max degree at elimination time
TdOrderWidth(g, order) ==
  LET step(acc, v) == [nb |-> TdEliminate(acc.nb, v), w |-> BMax(acc.w, Cardinality(acc.nb[v]))]
  IN FoldLeft(step, [nb |-> TdNbrFun(g), w |-> 0], order).w
TdIsPermutation(g, order) == BNoDup(order) /\ BSeqSet(order) = TdV(g)

\* descriptive model of tree_decomposition_from_order (bags = clique of v at elimination
\* time + v, attached to a later bag containing the clique); R3 shows it is always valid.
TdBagsFromOrder(g, order) ==
  LET step(acc, v) == [nb |-> TdEliminate(acc.nb, v), bags |-> Append(acc.bags, acc.nb[v] \cup {v})]
  IN FoldLeft(step, [nb |-> TdNbrFun(g), bags |-> <<>>], order).bags
=============================================================================
