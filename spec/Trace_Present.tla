---------------------------- MODULE Trace_Present ----------------------------
(* Judge for C12: one case = an abstract grammar `ag`, a presentation `agp`   *)
(* of it (rules / nodes / edges listed in another order, labels renamed by    *)
(* `ren`, domain values permuted by `perm`: new value = perm[label][old+1]),  *)
(* and the observed results on the presented grammar (built along a TLC-      *)
(* generated construction schedule).                                         *)
(* Clause 1 (conformance): observed = meaning of the presented grammar.       *)
(* Clause 2 (model-level, R3): meaning(agp) is meaning(ag) renamed/permuted.  *)
(* Together: results do not depend on how the grammar is written down.        *)
EXTENDS Semantics
VARIABLE tid
Cases == JsonDeserialize("cases.json")
Init == tid \in 1..Len(Cases)
Next == UNCHANGED tid

IsAbsent(iv) == iv[1] = ABSENT
Entries(c) == UNION { { <<t, i>> : i \in 1..Len(c.agp.w[t]) } : t \in Terms(c.agp) }
ExpGrad(c, t, i) == LET dz == DZNonRec(c.agp, t, i)[c.agp.start] IN FoldSet(LAMBDA ea, acc: acc + dz[ea], 0, ExtAssts(c.agp, c.agp.start))
GradOK(c, r) == \A e \in Entries(c) : LET o == r.grads[e[1]][e[2]] x == ExpGrad(c, e[1], e[2]) IN
                   IF IsAbsent(o) THEN x = 0 ELSE o[1] <= x /\ x <= o[2]

UsedNts(g) == {g.start} \cup { g.rules[i].lhs : i \in DOMAIN g.rules }
              \cup { l \in UNION { { g.rules[i].edges[k].lab : k \in DOMAIN g.rules[i].edges } : i \in DOMAIN g.rules } : ~g.els[l].t }
RunClause(c, z, r) ==
  IF r.out # "ok" THEN "Raised"
  \* (registering a label is an OPTIONAL step of the builder machine: a schedule may finish without ever mentioning a
  \*  nonterminal that has no rules and occurs in no rule -- the grammar built along it does not contain that label)
  ELSE IF ~(UsedNts(c.agp) \subseteq DOMAIN r.res /\ DOMAIN r.res \subseteq Nts(c.agp)) THEN "EveryNonterminalHasAValue"
  ELSE IF \E X \in DOMAIN r.res : ~TensorEq(c.agp, X, r.res[X], z[r.sr][X]) THEN "ResultIndependentOfPresentation"
  \* (no gradient claim when a weight is infinite: outside the dual-number carrier)
  ELSE IF r.hasgrad /\ (\A t \in Terms(c.agp) : \A i \in DOMAIN c.agp.w[t] : c.agp.w[t][i] # INF) /\ ~GradOK(c, r) THEN "GradientIndependentOfPresentation"
  ELSE "ok"

PermTuple(c, X, ea) == [i \in DOMAIN ea |-> c.perm[c.ag.els[X].type[i]][ea[i] + 1]]
TheoremHolds(c, sr) ==
  LET z == ZNonRec(sr, c.ag)  zp == ZNonRec(sr, c.agp) IN
  \A X \in Nts(c.ag) : \A ea \in ExtAssts(c.ag, X) : zp[c.ren[X]][PermTuple(c, X, ea)] = z[X][ea]

Verdict(c) ==
  LET srs == { c.runs[i].sr : i \in DOMAIN c.runs }
      z == [sr \in srs |-> ZNonRec(sr, c.agp)]
      bad == SelectSeq(c.runs, LAMBDA r: RunClause(c, z, r) # "ok")
  IN
  IF \E sr \in srs : ~TheoremHolds(c, sr) THEN [v |-> "SPEC-INCONSISTENT", tags |-> <<>>]
  ELSE IF bad = <<>> THEN [v |-> "ok", tags |-> <<>>]
  ELSE [v |-> RunClause(c, z, bad[1]), tags |-> bad[1].tag]
Judge == LET c == Cases[tid] r == Verdict(c) IN PrintT(ToJson([gtid |-> c.gtid, v |-> r.v, tags |-> r.tags]))
=============================================================================
