----------------------------- MODULE Semantics ------------------------------
(* The meaning of a factor graph grammar, by definition, on exact carriers.   *)
(*                                                                            *)
(* Grammar g (format harness/ag.py):                                          *)
(*   nls   : node label -> domain size                                        *)
(*   els   : edge label -> [t |-> terminal?, type |-> <<node labels>>]        *)
(*   rules : <<[lhs, nodes |-> <<labels>>, edges |-> <<[lab, att]>>, ext]>>   *)
(*   w     : terminal -> flat row-major weights on the `nat` carrier          *)
(*   wmp   : terminal -> flat row-major log-weights on the `mp` carrier       *)
(*                                                                            *)
(* Carriers ("sr"):  nat  = (N u {INF}, +, x)   0 x INF = 0                   *)
(*                   mp   = (Z u {NINF, INF}, max, +)   NINF + INF = NINF     *)
(*                   bool = ({0,1}, or, and)                                  *)
(* The Real semiring is `nat` on integer weights, the Log semiring its image  *)
(* under ln, the Viterbi semiring is `mp` on integer log-weights.             *)
EXTENDS Base

\* Dyadic fixed point for recursive grammars in the real semiring: non-negative reals as integers
\* scaled by FXS = 2^10;  "fx" multiplies exactly (INEXACT if the product is not on the grid),
\* "fxd" rounds products down (sound lower bounds), "fxu" rounds up (sound upper bounds).
FXS == 1024
INEXACT == -888888888
IsFx(sr) == sr \in {"fx", "fxd", "fxu"}
FxMul(sr, a, b) ==
  IF a = INEXACT \/ b = INEXACT THEN INEXACT
  ELSE CASE sr = "fx"  -> (IF (a * b) % FXS = 0 THEN (a * b) \div FXS ELSE INEXACT)
         [] sr = "fxd" -> (a * b) \div FXS
         [] sr = "fxu" -> -((-(a * b)) \div FXS)

\* Dual numbers <<a, d>> (forward-mode derivative, product rule) over nat and over the grid:
\* "dnat" exact; "dfxd" / "dfxu": value part exact on the grid, derivative part rounded down / up.
IsDual(sr) == sr \in {"dnat", "dfxd", "dfxu"}
DBase(sr) == CASE sr = "dnat" -> "nat" [] sr = "dfxd" -> "fx" [] sr = "dfxu" -> "fx"
DRound(sr) == CASE sr = "dnat" -> "nat" [] sr = "dfxd" -> "fxd" [] sr = "dfxu" -> "fxu"
BaseAdd(b, x, y) == IF b = "nat" THEN x + y ELSE (IF x = INEXACT \/ y = INEXACT THEN INEXACT ELSE x + y)
BaseMul(b, x, y) == IF b = "nat" THEN x * y ELSE FxMul(b, x, y)

\* "mt" = (N u {INF}, max, x): the image of the Viterbi semiring under exp on natural weights
SrZero(sr) == CASE sr = "nat" -> 0 [] sr = "mp" -> NINF [] sr = "bool" -> 0 [] sr = "mt" -> 0 [] IsFx(sr) -> 0 [] IsDual(sr) -> <<0, 0>>
SrOne(sr)  == CASE sr = "nat" -> 1 [] sr = "mp" -> 0    [] sr = "bool" -> 1 [] sr = "mt" -> 1 [] IsFx(sr) -> FXS
                [] sr = "dnat" -> <<1, 0>> [] sr \in {"dfxd", "dfxu"} -> <<FXS, 0>>
SrAdd(sr, a, b) ==
  CASE sr = "nat"  -> IF a = INF \/ b = INF THEN INF ELSE a + b
    [] sr = "mp"   -> IF a >= b THEN a ELSE b
    [] sr = "bool" -> IF a = 1 \/ b = 1 THEN 1 ELSE 0
    [] sr = "mt"   -> IF a >= b THEN a ELSE b
    [] IsFx(sr)    -> IF a = INEXACT \/ b = INEXACT THEN INEXACT ELSE a + b
    [] IsDual(sr)  -> <<BaseAdd(DBase(sr), a[1], b[1]), BaseAdd(DRound(sr), a[2], b[2])>>
SrMul(sr, a, b) ==
  CASE sr = "nat"  -> IF a = 0 \/ b = 0 THEN 0 ELSE IF a = INF \/ b = INF THEN INF ELSE a * b
    [] sr = "mp"   -> IF a = NINF \/ b = NINF THEN NINF ELSE IF a = INF \/ b = INF THEN INF ELSE a + b
    [] sr = "bool" -> IF a = 1 /\ b = 1 THEN 1 ELSE 0
    [] sr = "mt"   -> IF a = 0 \/ b = 0 THEN 0 ELSE IF a = INF \/ b = INF THEN INF ELSE a * b
    [] IsFx(sr)    -> FxMul(sr, a, b)
    [] IsDual(sr)  -> <<BaseMul(DBase(sr), a[1], b[1]),
                        BaseAdd(DRound(sr), BaseMul(DRound(sr), a[2], b[1]), BaseMul(DRound(sr), a[1], b[2]))>>
SrFromInt(sr, n) ==
  CASE sr = "nat" -> n [] sr = "mp" -> (IF n > 0 THEN 0 ELSE NINF) [] sr = "bool" -> (IF n > 0 THEN 1 ELSE 0)
    [] sr = "mt" -> (IF n > 0 THEN 1 ELSE 0)
    [] IsFx(sr) -> n * FXS
    [] sr = "dnat" -> <<n, 0>> [] sr \in {"dfxd", "dfxu"} -> <<n * FXS, 0>>
SrLeq(sr, a, b) == a <= b      \* natural order of all three carriers with these sentinels

SrSumSet(sr, f(_), S)  == FoldSet(LAMBDA x, acc: SrAdd(sr, acc, f(x)), SrZero(sr), S)
SrProdSeq(sr, f(_), n) == FoldLeft(LAMBDA acc, i: SrMul(sr, acc, f(i)), SrOne(sr), BIota(n))

\* ------------------------------------------------------------ grammar access
Nts(g)   == { n \in DOMAIN g.els : ~g.els[n].t }
Terms(g) == { n \in DOMAIN g.els : g.els[n].t }
ShapeOf(g, lab) == [i \in DOMAIN g.els[lab].type |-> g.nls[g.els[lab].type[i]]]
ExtAssts(g, X) == BIndexTuples(ShapeOf(g, X))
RulesOf(g, X) == { i \in DOMAIN g.rules : g.rules[i].lhs = X }
WeightOf(sr, g, lab, idx) ==
  CASE sr = "mp"   -> g.wmp[lab][idx]
    [] sr = "bool" -> (IF g.w[lab][idx] # 0 THEN 1 ELSE 0)
    [] sr = "nat"  -> g.w[lab][idx]
    [] sr = "mt"   -> g.w[lab][idx]
    [] IsFx(sr)    -> g.wfx[lab][idx]          \* weights scaled by FXS
    \* dual: the derivative is taken with respect to the weight entry g.seed = [lab, idx]
    [] sr = "dnat" -> <<g.w[lab][idx], IF g.seed.lab = lab /\ g.seed.idx = idx THEN 1 ELSE 0>>
    [] sr \in {"dfxd", "dfxu"} -> <<g.wfx[lab][idx], IF g.seed.lab = lab /\ g.seed.idx = idx THEN FXS ELSE 0>>

\* all total assignments of a rule's nodes to values of their domains
RuleAssts(g, r) ==
  LET n == Len(r.nodes)
      m == FoldLeft(LAMBDA acc, l: BMax(acc, g.nls[l]), 0, r.nodes) IN
  { a \in [1..n -> 0..(m - 1)] : \A i \in 1..n : a[i] < g.nls[r.nodes[i]] }

\* value of one edge under assignment a; x gives the current value of every nonterminal
EdgeVal(sr, g, x, e, a) ==
  LET idx == [k \in DOMAIN e.att |-> a[e.att[k]]] IN
  IF g.els[e.lab].t THEN WeightOf(sr, g, e.lab, BFlat(ShapeOf(g, e.lab), idx))
  ELSE x[e.lab][idx]

\* sum over all assignments that agree with the external assignment ea, of the product of the edges
RuleVal(sr, g, x, r, ea) ==
  SrSumSet(sr, LAMBDA a: SrProdSeq(sr, LAMBDA i: EdgeVal(sr, g, x, r.edges[i], a), Len(r.edges)),
           { a \in RuleAssts(g, r) : \A k \in DOMAIN r.ext : a[r.ext[k]] = ea[k] })

\* the one-step operator of the grammar's equations
\* (TLCEval: TLC builds functions lazily; an unforced chain of k iterates is re-evaluated
\*  exponentially often, so every iterate is forced at both levels)
StepF(sr, g, x) ==
  TLCEval([X \in Nts(g) |-> TLCEval([ea \in ExtAssts(g, X) |->
      SrSumSet(sr, LAMBDA i: RuleVal(sr, g, x, g.rules[i], ea), RulesOf(g, X))])])
Bottom(sr, g) == [X \in Nts(g) |-> [ea \in ExtAssts(g, X) |-> SrZero(sr)]]
\* k-th Kleene iterate = sum over derivations of depth <= k
Kleene(sr, g, k) == FoldLeft(LAMBDA x, i: StepF(sr, g, x), Bottom(sr, g), BIota(k))

\* dependency graph of the nonterminals and recursion
NtEdgeSet(g) == { p \in UNION { { <<g.rules[i].lhs, g.rules[i].edges[k].lab>> : k \in DOMAIN g.rules[i].edges } :
                                  i \in DOMAIN g.rules } : p[2] \in Nts(g) }
RECURSIVE ReachFrom(_, _, _)
ReachFrom(E, front, seen) ==
  LET nxt == { p[2] : p \in { q \in E : q[1] \in front } } \ seen IN
  IF nxt = {} THEN seen ELSE ReachFrom(E, nxt, seen \cup nxt)
\* X is recursive iff X is reachable from X through at least one edge
IsRecursiveNt(g, X) == X \in ReachFrom(NtEdgeSet(g), {X}, {})
NonRecursive(g) == \A X \in Nts(g) : ~IsRecursiveNt(g, X)
SameScc(g, X, Y) == X = Y \/ (Y \in ReachFrom(NtEdgeSet(g), {X}, {}) /\ X \in ReachFrom(NtEdgeSet(g), {Y}, {}))
\* linearly recursive: no rule has two right-hand-side edges in the SCC of its left-hand side
\* (an SCC that is a single non-looping nonterminal has none)
RecEdgesOfRule(g, r) == { k \in DOMAIN r.edges : r.edges[k].lab \in Nts(g) /\ IsRecursiveNt(g, r.lhs)
                                                   /\ SameScc(g, r.lhs, r.edges[k].lab) }
LinearlyRecursive(g) == \A i \in DOMAIN g.rules : Cardinality(RecEdgesOfRule(g, g.rules[i])) <= 1

\* exact sum-product of a non-recursive grammar: |N| Kleene steps reach every derivation
ZNonRec(sr, g) == Kleene(sr, g, Cardinality(Nts(g)))

\* least fixed point by Kleene iteration to stabilisation (exact on bool and, when it
\* stabilises within the bound, on mp/nat); returns [x |-> value, stable |-> BOOLEAN, steps]
RECURSIVE KleeneStab(_, _, _, _, _)
KleeneStab(sr, g, x, k, kmax) ==
  LET y == StepF(sr, g, x) IN
  IF y = x THEN [x |-> x, stable |-> TRUE, steps |-> k]
  ELSE IF k >= kmax THEN [x |-> y, stable |-> FALSE, steps |-> k]
  ELSE KleeneStab(sr, g, y, k + 1, kmax)
Lfp(sr, g, kmax) == KleeneStab(sr, g, Bottom(sr, g), 0, kmax)

(* ---- certificates for recursive grammars in the real semiring --------------------------- *)
(* cert : nonterminal -> ext assignment -> value (scaled by FXS).                            *)
(* It IS the least fixed point if (a) StepF("fx", g, cert) = cert exactly, and (b) the        *)
(* Jacobian of F at cert has infinity-norm q < 1: F has non-negative coefficients, so its     *)
(* Jacobian on the box [0, cert] is bounded by the one at cert, F maps the box into itself    *)
(* and contracts there: the fixed point in the box is unique, and the least fixed point lies  *)
(* in the box.  Row sum of the Jacobian for (X, ea): each nonterminal edge in turn replaced   *)
(* by one (summing the partial derivatives over all entries of that edge).                    *)
EdgeValD(sr, g, x, r, a, i, hole) ==
  IF i = hole THEN SrOne(sr) ELSE EdgeVal(sr, g, x, r.edges[i], a)
RuleRowSum(sr, g, x, r, ea) ==
  LET holes == { k \in DOMAIN r.edges : ~g.els[r.edges[k].lab].t } IN
  SrSumSet(sr, LAMBDA k:
      SrSumSet(sr, LAMBDA a: SrProdSeq(sr, LAMBDA i: EdgeValD(sr, g, x, r, a, i, k), Len(r.edges)),
               { a \in RuleAssts(g, r) : \A m \in DOMAIN r.ext : a[r.ext[m]] = ea[m] }), holes)
\* q (scaled by FXS, rounded up): the largest Jacobian row sum at x
ContractionBoundAt(g, x, X, ea) == SrSumSet("fxu", LAMBDA i: RuleRowSum("fxu", g, x, g.rules[i], ea), RulesOf(g, X))
CertQ(g, x) == Max({0} \cup UNION { { ContractionBoundAt(g, x, X, ea) : ea \in ExtAssts(g, X) } : X \in Nts(g) })
CertExact(g, cert) == StepF("fx", g, cert) = cert
\* sound lower bound of the least fixed point: k Kleene steps with products rounded down
LowerBound(g, k) == Kleene("fxd", g, k)

(* ---- gradients ------------------------------------------------------------------------- *)
\* the grammar with the differentiation seed set to weight entry (lab, idx)
Seeded(g, lab, idx) == [x \in DOMAIN g \cup {"seed"} |-> IF x = "seed" THEN [lab |-> lab, idx |-> idx] ELSE g[x]]
\* non-recursive: dZ_X[ea] / dw(lab, idx), exactly
DZNonRec(g, lab, idx) == LET z == ZNonRec("dnat", Seeded(g, lab, idx)) IN
                         [X \in Nts(g) |-> [ea \in ExtAssts(g, X) |-> z[X][ea][2]]]
\* recursive, certified grammar on the grid: G(y) = J(cert) y + dF/dw(cert) in dual arithmetic
DualState(g, cert, y) == [X \in Nts(g) |-> [ea \in ExtAssts(g, X) |-> <<cert[X][ea], y[X][ea]>>]]
DStep(sr, g, cert, y) == LET r == StepF(sr, g, DualState(g, cert, y)) IN
                         [X \in Nts(g) |-> [ea \in ExtAssts(g, X) |-> r[X][ea][2]]]
DZero(g) == [X \in Nts(g) |-> [ea \in ExtAssts(g, X) |-> 0]]
\* lower bound of the derivative of the least fixed point: k Kleene steps, rounded down
DLower(g, cert, lab, idx, k) ==
  FoldLeft(LAMBDA y, i: TLCEval(DStep("dfxd", Seeded(g, lab, idx), cert, y)), DZero(g), BIota(k))
\* pad is an upper bound if lower + pad is a post-fixed point of G (rounded up)
DUpperOK(g, cert, lab, idx, lo, pad) ==
  LET U == [X \in Nts(g) |-> [ea \in ExtAssts(g, X) |-> lo[X][ea] + pad]]
      GU == DStep("dfxu", Seeded(g, lab, idx), cert, U)
  IN \A X \in Nts(g) : \A ea \in ExtAssts(g, X) : GU[X][ea] # INEXACT /\ GU[X][ea] <= U[X][ea]

\* observed tensor of nonterminal X equals the function z.  The observation is flat, row-major,
\* each entry an interval <<lo, hi>> of carrier values the observed float is compatible with
\* (lo = hi for exact carriers; for the Log semiring the naturals n with |v - ln n| <= tol).
TensorEq(g, X, flat, z) ==
  /\ Len(flat) = BNumel(ShapeOf(g, X))
  /\ \A ea \in ExtAssts(g, X) : LET o == flat[BFlat(ShapeOf(g, X), ea)] IN o[1] <= z[ea] /\ z[ea] <= o[2]
=============================================================================
