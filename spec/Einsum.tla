------------------------------- MODULE Einsum -------------------------------
(* Semiring einsum by definition (C07; used by C09).                          *)
(*   ops    : <<patterned tensor structure>> with values on the carrier of sr  *)
(*   inputs : <<<<index name>>>>  one label sequence per operand               *)
(*   output : <<index name>>                                                  *)
(*   sizes  : index name -> size                                              *)
EXTENDS Axes, Semantics

EsAsgs(sizes, I) ==
  LET m == FoldSet(LAMBDA x, acc: BMax(acc, sizes[x]), 0, I) IN
  { a \in [I -> 0..(m - 1)] : \A x \in I : a[x] < sizes[x] }
EsSummed(inputs, output) == (UNION { BSeqSet(inputs[k]) : k \in DOMAIN inputs }) \ BSeqSet(output)
\* value of operand k (dense flat d, shape sh, labels lab) under the total assignment a
EsOperand(d, sh, lab, a) == d[BFlat(sh, [m \in DOMAIN lab |-> a[lab[m]]])]
EsMerge(a, b) == [x \in DOMAIN a \cup DOMAIN b |-> IF x \in DOMAIN a THEN a[x] ELSE b[x]]

\* dense operands given directly (flat + shape)
EsCell(sr, dens, shapes, inputs, a) ==
  SrProdSeq(sr, LAMBDA k: EsOperand(dens[k], shapes[k], inputs[k], a), Len(inputs))
EsResultAt(sr, dens, shapes, inputs, output, sizes, oa) ==
  SrSumSet(sr, LAMBDA sa: EsCell(sr, dens, shapes, inputs, EsMerge(oa, sa)), EsAsgs(sizes, EsSummed(inputs, output)))
\* the whole result, flat row-major over the output shape
EsOutShape(output, sizes) == [m \in DOMAIN output |-> sizes[output[m]]]
EsResult(sr, dens, shapes, inputs, output, sizes) ==
  LET osh == EsOutShape(output, sizes) IN
  [pos \in 1..BNumel(osh) |->
     LET oa == CHOOSE a \in EsAsgs(sizes, BSeqSet(output)) : BFlat(osh, [m \in DOMAIN output |-> a[output[m]]]) = pos
     IN EsResultAt(sr, dens, shapes, inputs, output, sizes, oa)]
=============================================================================
