----------------------------- MODULE MC_TreeDec -----------------------------
(* Bounded instance: TLC enumerates every labelled simple graph on <= MaxN   *)
(* vertices (spec as enumerator) and dumps it for the driver.                *)
(* R3 (oracle soundness, all SCHEDULES of the elimination game): for every   *)
(* graph in the bound and every elimination order, the order's width is      *)
(* >= the DP treewidth, and some order attains it; the bags produced by the  *)
(* elimination game always cover all vertices and edges.                     *)
EXTENDS TreeDec
CONSTANTS MaxN, CheckOrders
VARIABLE g

Pairs(n) == { e \in (1..n) \X (1..n) : e[1] < e[2] }
Mk(n, E) == [n |-> n, adj |-> [v \in 1..n |-> SetToSeq({ u \in 1..n : <<u, v>> \in E \/ <<v, u>> \in E })]]
Init == \E n \in 0..MaxN : \E E \in SUBSET Pairs(n) : g = Mk(n, E)
Next == UNCHANGED g

Orders == { o \in [1..g.n -> 1..g.n] : BNoDup(o) }
DPIsMinOverOrders ==
  (CheckOrders /\ g.n >= 1) =>
     LET ws == { TdOrderWidth(g, o) : o \in Orders } IN Min(ws) = TdTreewidth(g)
GameBagsCover ==
  (CheckOrders /\ g.n >= 1) =>
     \A o \in Orders : LET bs == TdBagsFromOrder(g, o) IN
        /\ UNION { bs[i] : i \in DOMAIN bs } = TdV(g)
        /\ \A e \in TdEdges(g) : \E i \in DOMAIN bs : e[1] \in bs[i] /\ e[2] \in bs[i]
Dump == PrintT(ToJson(g))
=============================================================================
