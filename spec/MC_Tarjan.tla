----------------------------- MODULE MC_Tarjan ------------------------------
(* Bounded exploration of the Tarjan machine: every digraph on <= MaxN         *)
(* vertices (self-loops included), every iteration order of every adjacency     *)
(* list (AllOrders) or the increasing / decreasing ones, every iteration order   *)
(* of the keys (AllRoots) or the identity.  One behaviour per input; TLC checks   *)
(* the invariants of Tarjan.tla in every state of every behaviour (R3:           *)
(* refinement of the definitional Scc module).                                   *)
EXTENDS Tarjan
CONSTANTS MaxN, AllOrders, AllRoots
VARIABLES g, s

SuccLists(n) == IF AllOrders THEN { q \in BSeqsUpTo(1..n, n) : BNoDup(q) }
                ELSE { SetToSeq(S) : S \in SUBSET (1..n) } \cup { Reverse(SetToSeq(S)) : S \in SUBSET (1..n) }
RootOrders(n) == IF AllRoots THEN { q \in [1..n -> 1..n] : BNoDup(q) } ELSE { BIota(n) }
Init == /\ \E n \in 0..MaxN : g \in { [n |-> n, adj |-> a, order |-> o] : a \in [1..n -> SuccLists(n)], o \in RootOrders(n) }
        /\ s = TjInit(g)
Next == ~TjDone(g, s) /\ s' = TjStep(g, s) /\ UNCHANGED g

StackIsVisitedMinusEmitted == TjStackIsVisitedMinusEmitted(g, s)
StackOrderedByIndex == TjStackOrderedByIndex(s)
LowBelowIdx == TjLowBelowIdx(g, s)
FramesOnStack == TjFramesOnStack(s)
FramesArePath == TjFramesArePath(g, s)
EmittedAreComponents == TjEmittedAreComponents(g, s)
FinalOK == TjFinalOK(g, s)
\* the closed-form run used by the trace judge agrees with the machine's last state
RunAgrees == TjDone(g, s) => TjRun(g) = s
\* termination within the bound: no behaviour is longer than TjBound
Terminates == TLCGet("level") <= TjBound(g) + 1
=============================================================================
