----------------------------- MODULE MC_Semiring -----------------------------
(* R3 for C08: the carriers the numeric properties are decided on really are  *)
(* commutative star-semirings (closed under the sentinels, 0 x INF = 0).      *)
EXTENDS Semiring, Binade
VARIABLE sr
Points(s) == CASE s = "nat" -> {0, 1, 2, 3, 5, 7, 12, INF}
               [] s = "mp" -> {NINF, -5, -3, -1, 0, 1, 2, 4, INF}
               [] s = "bool" -> {0, 1}
Init == sr \in {"nat", "mp", "bool"}
Next == UNCHANGED sr
Laws == AllLaws(sr, Points(sr))
\* R3 for the binade carrier: 2^k is the solution of y = 1 + (1 - 2^-k) y (exact integers, k <= 30)
StarOm == \A k \in 1..30 : BnStarOmLaw(k)
\* and the abstract product is associative and commutative wherever it is judged
F64 == [emin |-> -1074, emax |-> 1023, mant |-> 53]
BnPts == {BnZ, BnInf(1)} \cup { BnP(1, e) : e \in {-1074, -600, -1, 0, 1, 52, 600, 1023} }
BnMulLaws == \A a, b, c \in BnPts :
   /\ BnMulReal(F64, a, b) = BnMulReal(F64, b, a)
   /\ LET ab == BnMulReal(F64, a, b) bc == BnMulReal(F64, b, c) IN
        (ab.k # "unjudged" /\ bc.k # "unjudged") =>
           LET l == BnMulReal(F64, ab, c) r == BnMulReal(F64, a, bc) IN (l.k # "unjudged" /\ r.k # "unjudged") => l = r
=============================================================================
