----------------------------- MODULE MC_Semiring -----------------------------
(* R3 for C08: the carriers the numeric properties are decided on really are  *)
(* commutative star-semirings (closed under the sentinels, 0 x INF = 0).      *)
EXTENDS Semiring
VARIABLE sr
Points(s) == CASE s = "nat" -> {0, 1, 2, 3, 5, 7, 12, INF}
               [] s = "mp" -> {NINF, -5, -3, -1, 0, 1, 2, 4, INF}
               [] s = "bool" -> {0, 1}
Init == sr \in {"nat", "mp", "bool"}
Next == UNCHANGED sr
Laws == AllLaws(sr, Points(sr))
=============================================================================
