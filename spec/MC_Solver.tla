------------------------------ MODULE MC_Solver ------------------------------
(* Bounded exploration of the solver-driver machine on a fixed small grammar   *)
(* (S -> X X | a ; X -> X | Y ; Y -> a ; Z -> a, unreachable): every order of    *)
(* components the dependency relation allows, every outcome of every stopping    *)
(* test within the budget.  R3: the machine never deadlocks before every         *)
(* nonterminal is solved, solves each exactly once, and a warning event occurs    *)
(* exactly in behaviours where some iterative method exhausted its budget.       *)
EXTENDS Solver
CONSTANTS KMax, Req
VARIABLES s, log
G == [els |-> [S |-> [t |-> FALSE, type |-> <<>>], X |-> [t |-> FALSE, type |-> <<>>], Y |-> [t |-> FALSE, type |-> <<>>],
               Z |-> [t |-> FALSE, type |-> <<>>], a |-> [t |-> TRUE, type |-> <<>>]],
      rules |-> << [lhs |-> "S", edges |-> <<[lab |-> "X"], [lab |-> "X"]>>], [lhs |-> "S", edges |-> <<[lab |-> "a"]>>],
                   [lhs |-> "X", edges |-> <<[lab |-> "X"]>>], [lhs |-> "X", edges |-> <<[lab |-> "Y"]>>],
                   [lhs |-> "Y", edges |-> <<[lab |-> "a"]>>], [lhs |-> "Z", edges |-> <<[lab |-> "a"]>>] >>]
Comps == { SvScc(G, X) : X \in Nts(G) }
Events == {<<"begin">>, <<"end">>}
   \cup { <<"comp", SetToSeq(C), SvExpected(G, C, Req), Req, KMax>> : C \in Comps }
   \cup { <<"fp_iter", k>> : k \in 1..(KMax + 1) } \cup { <<"fp_end", k, w>> : k \in 0..(KMax + 1), w \in BOOLEAN }
   \cup { <<"nt_iter", k, st>> : k \in 1..KMax, st \in BOOLEAN } \cup { <<"nt_end", w>> : w \in BOOLEAN }
Init == s = SvInit /\ log = <<>>
Next == \E e \in Events : LET r == SvStep(G, s, e) IN r.ok /\ s' = r.s /\ log' = Append(log, e)
Finished == Len(log) > 0 /\ log[Len(log)][1] = "end"
EachOnce == Finished => s.done = Nts(G)
NoDrift == ~s.drift
\* the machine can always continue until "end"
NoStuck == Finished \/ \E e \in Events : SvStep(G, s, e).ok
Bound == Len(log) <= 30
=============================================================================
