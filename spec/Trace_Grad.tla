------------------------------ MODULE Trace_Grad ------------------------------
(* Batch judge for C03.  c.ag grammar; c.mode "nat" (non-recursive, exact) or   *)
(* "fx" (recursive on the grid with certificate c.ag.cert); c.cot cotangent     *)
(* (flat naturals over the start tensor); c.runs = <<[kind ("real" | "log"),     *)
(* tag, out, grads |-> [terminal |-> flat <<lo, hi>> (ABSENT pair for None)],    *)
(* z |-> flat values of the start tensor (log runs)]>>.                          *)
(*  real, nat : grad[t][i] = sum_ea cot[ea] * dZ_S[ea]/dw(t,i)        exactly    *)
(*  log,  nat : grad[t][i] = sum_ea cot[ea] * w dZ_S[ea]/dw / Z_S[ea]  (rational, *)
(*              observed value scaled by 10^4, tolerance 3 units)               *)
(*  real, fx  : grad within the enclosure [lower - 1, lower + pad + 1] of the    *)
(*              derivative of the proved least fixed point (grid units)         *)
EXTENDS Semantics
VARIABLE tid
Cases == JsonDeserialize("cases.json")
Init == tid \in 1..Len(Cases)
Next == UNCHANGED tid

S(c) == c.ag.start
StartAssts(c) == ExtAssts(c.ag, S(c))
CotAt(c, ea) == c.cot[BFlat(ShapeOf(c.ag, S(c)), ea)]
IsAbsent(iv) == iv[1] = ABSENT
Entries(c) == UNION { { <<t, i>> : i \in 1..Len(c.ag.w[t]) } : t \in Terms(c.ag) }
EntriesFx(c) == UNION { { <<t, i>> : i \in 1..Len(c.ag.wfx[t]) } : t \in Terms(c.ag) }

\* ---- non-recursive, exact
ExpReal(c, t, i) == LET dz == DZNonRec(c.ag, t, i)[S(c)] IN
                    FoldSet(LAMBDA ea, acc: acc + CotAt(c, ea) * dz[ea], 0, StartAssts(c))
RealClause(c, r) ==
  IF \E e \in Entries(c) : LET o == r.grads[e[1]][e[2]] x == ExpReal(c, e[1], e[2]) IN
        IF IsAbsent(o) THEN x # 0 ELSE ~(o[1] <= x /\ x <= o[2])
  THEN "GradientIsTheTrueDerivative" ELSE "ok"

\* log: observed g (scaled 10^4) against the rational sum_ea cot * w * dz / z ; start tensors of <= 2 entries
\* (log runs use the one-hot cotangent c.cotlog, so that the rational has denominator Z at one entry)
CotLog(c, ea) == c.cotlog[BFlat(ShapeOf(c.ag, S(c)), ea)]
LogDefined(c, z) == \A ea \in StartAssts(c) : CotLog(c, ea) # 0 => z[ea] # 0
LogClause(c, r) ==
  LET z == ZNonRec("nat", c.ag)[S(c)] IN
  IF ~LogDefined(c, z) THEN "ok"
  ELSE LET den == FoldSet(LAMBDA ea, acc: acc * (IF CotLog(c, ea) # 0 THEN z[ea] ELSE 1), 1, StartAssts(c))
           num(t, i) == LET dz == DZNonRec(c.ag, t, i)[S(c)] IN
              FoldSet(LAMBDA ea, acc: acc + (IF CotLog(c, ea) = 0 THEN 0 ELSE CotLog(c, ea) * c.ag.w[t][i] * dz[ea] * (den \div z[ea])), 0, StartAssts(c))
       IN IF \E e \in { e \in Entries(c) : c.ag.w[e[1]][e[2]] # 0 } :
               LET o == r.grads[e[1]][e[2]] IN
               IF IsAbsent(o) THEN num(e[1], e[2]) # 0
               ELSE BAbs(o[1] * den - 10000 * num(e[1], e[2])) > 3 * den
          THEN "LogGradientIsTheDerivativeOfLogZ" ELSE "ok"

\* ---- recursive on the grid
CertFun(g) == [X \in Nts(g) |-> [ea \in ExtAssts(g, X) |-> g.cert[X][BFlat(ShapeOf(g, X), ea)]]]
\* the smallest pad of the ladder for which lower + pad is a post-fixed point (0 = none: no claim)
Pads == <<8, 32, 128>>
PadFor(c, cert, e, lo) ==
  LET okp == SelectSeq(Pads, LAMBDA p: DUpperOK(c.ag, cert, e[1], e[2], lo, p)) IN IF okp = <<>> THEN 0 ELSE okp[1]
FxClause(c, r, cert) ==
  IF \E e \in EntriesFx(c) :
       LET lo == DLower(c.ag, cert, e[1], e[2], 40)
           pad == PadFor(c, cert, e, lo)
           \* cotangents are signed: a negative one turns the enclosure of its term around
           glo == FoldSet(LAMBDA ea, acc: acc + CotAt(c, ea) * (lo[S(c)][ea] + (IF CotAt(c, ea) < 0 THEN pad ELSE 0)), 0, StartAssts(c))
           ghi == FoldSet(LAMBDA ea, acc: acc + CotAt(c, ea) * (lo[S(c)][ea] + (IF CotAt(c, ea) < 0 THEN 0 ELSE pad)), 0, StartAssts(c))
           o == r.grads[e[1]][e[2]]
       IN pad > 0 /\ (IF IsAbsent(o) THEN (glo > 2 \/ ghi < -2) ELSE (o[2] + 2 < glo \/ o[1] - 2 > ghi))
  THEN "GradientIsTheTrueDerivative" ELSE "ok"

\* Log semiring on a certified grid grammar with SCALAR start symbol: d log Z / d log w = w (dZ/dw) / Z.
\* Observed g (interval in grid units, i.e. 1024 g) against the enclosure of dZ/dw:
\*     1024 g * Z1024  in  [ w1024 * lo1024 - slack , w1024 * (lo1024 + pad) + slack ]      (all scaled by 1024^2)
FxLogClause(c, r, cert) ==
  LET Z == cert[S(c)][<<>>] IN
  IF ShapeOf(c.ag, S(c)) # <<>> \/ Z = 0 THEN "ok"
  ELSE IF \E e \in { e \in EntriesFx(c) : c.ag.wfx[e[1]][e[2]] # 0 } :
       LET lo == DLower(c.ag, cert, e[1], e[2], 40)
           pad == PadFor(c, cert, e, lo)
           w == c.ag.wfx[e[1]][e[2]]
           k == CotAt(c, <<>>)            \* signed cotangent of the scalar start symbol
           a == IF k >= 0 THEN k * w * lo[S(c)][<<>>] ELSE k * w * (lo[S(c)][<<>>] + pad)
           b == IF k >= 0 THEN k * w * (lo[S(c)][<<>>] + pad) ELSE k * w * lo[S(c)][<<>>]
           o == r.grads[e[1]][e[2]]
           slack == (3 * Z + 3 * w) * BMax(1, BAbs(k))
       IN pad > 0 /\ (IF IsAbsent(o) THEN (a > slack \/ b < -slack) ELSE (o[2] * Z + slack < a \/ o[1] * Z - slack > b))
  THEN "LogGradientIsTheDerivativeOfLogZ" ELSE "ok"

Verdict(c) ==
  LET cert == IF c.mode = "fx" THEN CertFun(c.ag) ELSE <<>>
      certified == c.mode = "fx" /\ CertExact(c.ag, cert) /\ CertQ(c.ag, cert) < FXS
      clause(r) == IF r.out # "ok" THEN "Raised"
                   ELSE IF c.mode = "nat" THEN (IF r.kind = "real" THEN RealClause(c, r) ELSE LogClause(c, r))
                   ELSE IF ~certified THEN "ok"
                   ELSE IF r.kind = "log" THEN FxLogClause(c, r, cert) ELSE FxClause(c, r, cert)
      bad == SelectSeq(c.runs, LAMBDA r: clause(r) # "ok")
  IN [v |-> IF bad = <<>> THEN "ok" ELSE clause(bad[1]), tags |-> IF bad = <<>> THEN <<>> ELSE bad[1].tag, certified |-> certified]
Judge == LET c == Cases[tid] r == Verdict(c) IN PrintT(ToJson([gtid |-> c.gtid, v |-> r.v, tags |-> r.tags, certified |-> r.certified]))
=============================================================================
