---------------------------- MODULE Trace_Conjoin ----------------------------
(* Batch judge for C17: one case = g1, g2 (abstract, with ids), the outcome   *)
(* of conjoin_hrgs and the projection h of its result; `hint` is the naming   *)
(* of nonterminal pairs read from the library (checked, not trusted).         *)
EXTENDS Conjoin
VARIABLE tid
Cases == JsonDeserialize("cases.json")
Init == tid \in 1..Len(Cases)
Next == UNCHANGED tid

PairSet(c) == CjNts(c.g1) \X CjNts(c.g2)
HintMap(c) == [p \in PairSet(c) |-> (CHOOSE x \in BSeqSet(c.hint) : x[1] = p[1] /\ x[2] = p[2])[3]]
HintTotal(c) == \A p \in PairSet(c) : \E x \in BSeqSet(c.hint) : x[1] = p[1] /\ x[2] = p[2]
HNames(c) == { c.h.rules[i].lhs : i \in DOMAIN c.h.rules } \cup {c.h.start}
                \cup UNION { { c.h.rules[i].edges[k].lab : k \in DOMAIN c.h.rules[i].edges } : i \in DOMAIN c.h.rules }

Verdict(c) ==
  IF TerminalConflict(c.g1, c.g2) THEN (IF c.out = "raise:ValueError" THEN "ok" ELSE "TerminalConflictReportedWithValueError")
  ELSE IF c.out # "ok" THEN "Raised"
  ELSE IF HintTotal(c) /\ ConjOKUnder(c.g1, c.g2, c.h, HintMap(c)) THEN
       (IF PairNamesFresh(c.g1, c.g2, HintMap(c)) THEN
            (IF CjCount(c.h, c.h.start, 3) = CjPairCount(c.g1, c.g2, c.g1.start, c.g2.start, 3) THEN "ok" ELSE "DerivationsCorrespondOneToOne")
        ELSE "PairedNamesUniqueAndFresh")
  ELSE IF Cardinality(PairSet(c)) <= 4 /\ \E P \in [PairSet(c) -> HNames(c) \cup {"?1", "?2", "?3", "?4"}] :
             ConjOKUnder(c.g1, c.g2, c.h, P) /\ PairNamesFresh(c.g1, c.g2, P) THEN "ok"
  ELSE "ConjoinedRulesAreThePairedRules"
Judge == LET c == Cases[tid] IN PrintT(ToJson([gtid |-> c.gtid, v |-> Verdict(c), tags |-> c.tag]))
=============================================================================
