---------------------------- MODULE Trace_Graphs ----------------------------
(* Trace judge for the object heap (C16, binding clause of C20): every case   *)
(* is one observed call on real fggs objects with the projected heap before   *)
(* and after.                                                                 *)
(*   states.json : <<heap projection>>   (a heap is handle -> object)         *)
(*   cases.json  : <<[pre, post (indices into states), call, out, eq,         *)
(*                    sharers, gtid]>>                                        *)
(* Normative clauses gate; `drift` reports disagreement with the descriptive  *)
(* model (HeapApply evaluated on the OBSERVED pre-state) and never gates.     *)
EXTENDS Graphs
VARIABLE tid
Cases == JsonDeserialize("cases.json")
StatesJ == JsonDeserialize("states.json")
Init == tid \in 1..Len(Cases)
Next == UNCHANGED tid

ToGraph(p) == [k |-> p.k, nodes |-> BSeqSet(p.nodes), edges |-> BSeqSet(p.edges), ext |-> p.ext,
               nls |-> BSeqSet(p.nls), els |-> BSeqSet(p.els)]
ToHrg(p) == [k |-> p.k, start |-> p.start,
             rules |-> [i \in DOMAIN p.rules |-> [lhs |-> p.rules[i].lhs, rhs |-> ToGraph(p.rules[i].rhs)]],
             nls |-> BSeqSet(p.nls), els |-> BSeqSet(p.els), doms |-> BSeqSet(p.doms), facs |-> BSeqSet(p.facs)]
ToFGraph(p) == [k |-> p.k, nodes |-> BSeqSet(p.nodes), edges |-> BSeqSet(p.edges), ext |-> p.ext,
                nls |-> BSeqSet(p.nls), els |-> BSeqSet(p.els), doms |-> BSeqSet(p.doms), facs |-> BSeqSet(p.facs)]
ToObj(p) == IF p.k = "none" THEN NoObj ELSE IF p.k = "graph" THEN ToGraph(p)
            ELSE IF p.k = "fgraph" THEN ToFGraph(p) ELSE ToHrg(p)
Heap(j) == [h \in DOMAIN j |-> ToObj(j[h])]
States == [i \in DOMAIN StatesJ |-> Heap(StatesJ[i])]

\* graph values inside call arguments arrive as JSON arrays as well
ToCall(c) == IF "rhs" \in DOMAIN c THEN [c EXCEPT !.rhs = [shared |-> c.rhs.shared, g |-> ToGraph(c.rhs.g)]] ELSE c

\* the model heap keeps rhs references; an observed heap has values only
AsModel(st) == [h \in DOMAIN st |->
   IF st[h].k \in {"hrg", "fgg"}
   THEN [st[h] EXCEPT !.rules = [i \in DOMAIN st[h].rules |->
            [lhs |-> st[h].rules[i].lhs, rhs |-> [shared |-> FALSE, g |-> st[h].rules[i].rhs]]]]
   ELSE st[h]]

EqOK(ev, post) ==
  LET P == DOMAIN ev.eq IN
  IF \E a \in P : ~ev.eq[a][a] THEN "EqReflexive"
  ELSE IF \E a, b \in P : ev.eq[a][b] # ev.eq[b][a] THEN "EqSymmetric"
  ELSE IF \E a, b, c \in P : ev.eq[a][b] /\ ev.eq[b][c] /\ ~ev.eq[a][c] THEN "EqTransitive"
  ELSE IF \E a, b \in P \cap DOMAIN post : ev.eq[a][b] /\ ObjCore(post[a]) # ObjCore(post[b]) THEN "EqDistinguishes"
  ELSE "ok"

\* C20: a binding call that succeeds was entitled to
BindingOK(ev, pre) ==
  LET c == ev.call o == pre[c.h] IN
  IF "nodrift" \in DOMAIN ev THEN "ok"        \* events without recorded arguments
  ELSE IF c.op = "add_factor" /\ ev.out = "ok" THEN
       IF ~c.el.t THEN "BindOnlyTerminals"
       ELSE IF \E f \in o.facs : f.el.name = c.el.name THEN "BindOnlyUnboundLabel"
       ELSE IF ~FactorFits(o, c.el, c.fac) THEN "BindOnlyIfArityAndDomainsMatch"
       ELSE "ok"
  ELSE IF c.op = "add_domain" /\ ev.out = "ok" /\ (\E d \in o.doms : d.nl = c.nl) THEN "BindOnlyUnboundNodeLabel"
  ELSE "ok"

\* ev.ty : handle -> the observed .type of a graph (label names) / the .type of every rule's right-hand side
TypeOK(ev, post) ==
  IF "ty" \notin DOMAIN ev THEN "ok"
  ELSE IF \E h \in DOMAIN ev.ty \cap DOMAIN post :
            IF post[h].k \in {"graph", "fgraph"} THEN ev.ty[h] # GraphType(post[h])
            ELSE IF post[h].k \in {"hrg", "fgg"} THEN ev.ty[h] # [i \in DOMAIN post[h].rules |-> GraphType(post[h].rules[i].rhs)]
            ELSE FALSE
       THEN "TypeIsTheLabelsOfTheExternalNodes" ELSE "ok"

MayChange(ev) == {ev.call.h} \cup (IF ev.call.h = "g1" THEN BSeqSet(ev.sharers) ELSE {})
                             \cup (IF ev.call.op \in {"copy", "new", "new_hrg", "from_graph"} THEN {OtherG(ev.call.h)} ELSE {})
\* objects the call broke (a copy of an already ill-formed object is not blamed on copy())
BrokenBy(ev, pre, post) ==
  { h \in DOMAIN post : /\ ObjWFClause(pre[h]) = "ok" /\ ObjWFClause(post[h]) # "ok"
                        /\ ~(ev.call.op = "copy" /\ h = OtherG(ev.call.h) /\ ObjWFClause(pre[ev.call.h]) # "ok") }

Clause(ev) ==
  LET pre == States[ev.pre]  post == States[ev.post]  c == ev.call IN
  IF BrokenBy(ev, pre, post) # {} THEN ObjWFClause(post[CHOOSE h \in BrokenBy(ev, pre, post) : TRUE])
  ELSE IF ev.out = "raise" /\ post # pre THEN "FailureAtomic"
  ELSE IF IsMutator(c.op) /\ \E h \in DOMAIN post \ MayChange(ev) : post[h] # pre[h] THEN "CopyIndependent"
  ELSE IF c.op = "copy" /\ ev.out = "ok" /\ post[OtherG(c.h)] # post[c.h] THEN "CopyEqualsOriginal"
  ELSE IF c.op = "copy" /\ ev.out = "ok" /\ ~ev.eq[c.h][OtherG(c.h)] THEN "CopyComparesEqual"
  ELSE IF c.op = "copy" /\ post[c.h] # pre[c.h] THEN "CopyLeavesOriginal"
  ELSE IF c.op = "from_graph" /\ ev.out = "ok" /\
          (GraphCore(post[OtherG(c.h)]) # GraphCore(post[c.h]) \/ post[OtherG(c.h)].doms # {} \/ post[OtherG(c.h)].facs # {}) THEN "FromGraphKeepsTheGraph"
  ELSE IF c.op = "from_graph" /\ post[c.h] # pre[c.h] THEN "CopyLeavesOriginal"
  ELSE IF TypeOK(ev, post) # "ok" THEN TypeOK(ev, post)
  ELSE IF BindingOK(ev, pre) # "ok" THEN BindingOK(ev, pre)
  ELSE EqOK(ev, post)

KindTag(o) == IF o.k \in {"graph", "fgraph"} THEN "graph" ELSE IF o.k = "none" THEN "none" ELSE "hrg"
Tags(ev) ==
  LET pre == States[ev.pre]  post == States[ev.post] B == BrokenBy(ev, pre, post) IN
  <<ev.call.op, IF ev.call.h \in {"g1", "g2"} THEN "target_graph" ELSE "target_hrg">>
     \o (IF B # {} THEN <<IF KindTag(post[CHOOSE h \in B : TRUE]) = "graph" THEN "broken_graph" ELSE "broken_hrg">> ELSE <<>>)
     \* signature of the second shared-rhs finding: BEFORE the call, a rule of the target grammar already uses an edge label
     \* its own label table does not know (add_rule registers every label of the rule, so this can only come from a
     \* right-hand side mutated after add_rule, or from a copy of such a grammar)
     \o (IF pre[ev.call.h].k \in {"hrg", "fgg"} /\
            (\E i \in DOMAIN pre[ev.call.h].rules : \E e \in pre[ev.call.h].rules[i].rhs.edges : e.lab \notin pre[ev.call.h].els)
         THEN <<"rhs_label_unknown_to_grammar">> ELSE <<>>)

\* (events recorded from the repository's own tests carry no arguments: no drift measurement)
Drift(ev) == IF "nodrift" \in DOMAIN ev THEN FALSE
             ELSE LET r == HeapApply(AsModel(States[ev.pre]), ToCall(ev.call)) IN
                  r.out # ev.out \/ Resolve(r.s) # States[ev.post]

Judge == LET ev == Cases[tid] IN
         PrintT(ToJson([gtid |-> ev.gtid, v |-> Clause(ev), tags |-> Tags(ev), drift |-> Drift(ev)]))
=============================================================================
