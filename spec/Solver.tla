------------------------------- MODULE Solver -------------------------------
(* The solver driver of sum_products as a state machine (C02, C19; growth).    *)
(* One behaviour = one call: the components of the nonterminal graph are       *)
(* solved one after the other; a component is handed to one-step evaluation,   *)
(* to the linear solver or to an iterative method; an iterative method counts  *)
(* its iterations and either meets its stopping criterion or exhausts its       *)
(* budget -- in which case, and only then, it warns.                           *)
(*                                                                            *)
(*   state  [pc, done, cur, meth, k, kmax, req, warned, log]                   *)
(*   events <<"begin">>, <<"comp", <<names>>, chosen, requested, kmax>>,       *)
(*          <<"fp_iter", k>>, <<"fp_end", k, warned>>,                          *)
(*          <<"nt_iter", k, stop>>, <<"nt_end", warned>>, <<"end">>             *)
(* NORMATIVE clauses (gate): components are exactly the SCCs and come in        *)
(* dependency order; every nonterminal is solved exactly once; fixed-point      *)
(* warns iff it left its loop with k > kmax; newton warns iff it used up kmax    *)
(* iterations without meeting its stopping criterion; nothing happens after a    *)
(* component's end event except the next component.  DESCRIPTIVE (drift only):   *)
(* which method a component is handed to.                                       *)
EXTENDS Semantics

SvInit == [pc |-> "idle", done |-> {}, cur |-> {}, meth |-> "", k |-> 0, kmax |-> 0, lastStop |-> FALSE, drift |-> FALSE]

SvScc(g, X) == { Y \in Nts(g) : SameScc(g, X, Y) }
SvDeps(g, C) == { p[2] : p \in { q \in NtEdgeSet(g) : q[1] \in C } }
\* what today's driver does with a component (descriptive)
SvMaxRhs(g, C) == Max({0} \cup { Cardinality({ k \in DOMAIN g.rules[i].edges : g.rules[i].edges[k].lab \in C }) : i \in { i \in DOMAIN g.rules : g.rules[i].lhs \in C } })
SvExpected(g, C, req) ==
  IF Cardinality(C) = 1 /\ SvMaxRhs(g, C) = 0 THEN "one-step"
  ELSE IF SvMaxRhs(g, C) = 1 /\ req = "newton" THEN "linear"
  ELSE req

\* the step relation as a function: state x event -> [ok, clause, s]
SvStep(g, s, e) ==
  LET bad(c) == [ok |-> FALSE, clause |-> c, s |-> s]
      good(t) == [ok |-> TRUE, clause |-> "ok", s |-> t]
  IN
  IF e[1] = "begin" THEN (IF s.pc = "idle" THEN good([s EXCEPT !.pc = "pick"]) ELSE bad("BeginOnce"))
  ELSE IF e[1] = "comp" THEN
       LET C == BSeqSet(e[2]) IN
       IF s.pc # "pick" THEN bad("ComponentStartsAfterPreviousEnded")
       ELSE IF C = {} \/ ~(C \subseteq Nts(g)) \/ C \cap s.done # {} THEN bad("EveryNonterminalSolvedOnce")
       ELSE IF C # SvScc(g, CHOOSE X \in C : TRUE) THEN bad("ComponentIsAnSCC")
       ELSE IF ~(SvDeps(g, C) \subseteq s.done \cup C) THEN bad("DependenciesSolvedFirst")
       ELSE good([s EXCEPT !.cur = C, !.meth = e[3], !.k = 0, !.kmax = e[5], !.lastStop = FALSE,
                           !.pc = IF e[3] \in {"one-step", "linear"} THEN "pick" ELSE "iter",
                           !.done = IF e[3] \in {"one-step", "linear"} THEN s.done \cup C ELSE s.done,
                           !.drift = s.drift \/ e[3] # SvExpected(g, C, e[4])])
  ELSE IF e[1] = "fp_iter" THEN
       IF s.pc # "iter" \/ s.meth # "fixed-point" THEN bad("IterationOnlyInsideAnIterativeMethod")
       ELSE IF e[2] # s.k + 1 THEN bad("IterationsCountedOneByOne")
       ELSE IF s.k > s.kmax THEN bad("NoIterationBeyondTheBudget")
       ELSE good([s EXCEPT !.k = e[2]])
  ELSE IF e[1] = "fp_end" THEN
       IF s.pc # "iter" \/ s.meth # "fixed-point" \/ e[2] # s.k THEN bad("IterationOnlyInsideAnIterativeMethod")
       ELSE IF e[3] # (s.k > s.kmax) THEN bad("WarnsIffBudgetExhausted")
       ELSE good([s EXCEPT !.pc = "pick", !.done = s.done \cup s.cur])
  ELSE IF e[1] = "nt_iter" THEN
       IF s.pc # "iter" \/ s.meth # "newton" THEN bad("IterationOnlyInsideAnIterativeMethod")
       ELSE IF e[2] # s.k + 1 THEN bad("IterationsCountedOneByOne")
       ELSE IF s.k >= s.kmax \/ s.lastStop THEN bad("NoIterationBeyondTheBudget")
       ELSE good([s EXCEPT !.k = e[2], !.lastStop = e[3]])
  ELSE IF e[1] = "nt_end" THEN
       IF s.pc # "iter" \/ s.meth # "newton" THEN bad("IterationOnlyInsideAnIterativeMethod")
       ELSE IF e[2] # ~s.lastStop THEN bad("WarnsIffBudgetExhausted")
       ELSE IF ~s.lastStop /\ s.k # s.kmax THEN bad("BudgetFullyUsedBeforeGivingUp")
       ELSE good([s EXCEPT !.pc = "pick", !.done = s.done \cup s.cur])
  ELSE IF e[1] = "end" THEN
       IF s.pc # "pick" THEN bad("EndAfterLastComponent")
       ELSE IF s.done # Nts(g) THEN bad("EveryNonterminalSolvedOnce")
       ELSE good([s EXCEPT !.pc = "idle"])
  ELSE bad("UnknownEvent")

\* run a whole trace; result [ok, clause, pos, drift]
SvRun(g, tr) ==
  FoldLeft(LAMBDA acc, i: IF ~acc.ok THEN acc
                          ELSE LET r == SvStep(g, acc.s, tr[i]) IN [ok |-> r.ok, clause |-> r.clause, pos |-> i, s |-> r.s],
           [ok |-> TRUE, clause |-> "ok", pos |-> 0, s |-> SvInit], BIota(Len(tr)))
=============================================================================
