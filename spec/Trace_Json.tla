------------------------------ MODULE Trace_Json ------------------------------
(* Batch judge for C14.  Case kinds:                                          *)
(*  "rt"  : g (abstract), j1 = fgg_to_json(real g), dumps (json.dumps ok),     *)
(*          j2 = fgg_to_json(json_to_fgg(j1)) or the exception, allexplicit    *)
(*  "bad" : a JSON grammar with one attachment/external number replaced by     *)
(*          idx, out of a rule with n nodes: must raise ValueError iff idx is  *)
(*          outside 0..n-1                                                    *)
EXTENDS JsonFmt
VARIABLE tid
Cases == JsonDeserialize("cases.json")
Init == tid \in 1..Len(Cases)
Next == UNCHANGED tid
Verdict(c) ==
  IF c.kind = "rt" THEN
     IF c.out1 # "ok" THEN "ToJsonRaised"
     ELSE IF ~c.dumps THEN "JsonDumpsAccepts"
     ELSE IF JClause(c.g, c.j1) # "ok" THEN JClause(c.g, c.j1)
     ELSE IF c.out2 # "ok" THEN "FromJsonRaised"
     ELSE IF JClause(c.g, c.j2) # "ok" THEN "RoundTrip" \o JClause(c.g, c.j2)
     ELSE IF c.allexplicit /\ c.j2 # c.j1 THEN "SecondRoundTripVerbatim"
     ELSE "ok"
  ELSE IF c.kind = "bad" THEN
     IF c.idx \in 0..(c.n - 1) THEN (IF c.out = "ok" THEN "ok" ELSE "ValidNumberRejected")
     ELSE IF c.out # "raise:ValueError" THEN "OutOfRangeNumberRejectedWithValueError"
     ELSE "ok"
  ELSE "UnknownCase"
Judge == LET c == Cases[tid] IN PrintT(ToJson([gtid |-> c.gtid, v |-> Verdict(c), tags |-> c.tag]))
=============================================================================
