-------------------------------- MODULE Scc --------------------------------
(* Strongly connected components and dependency order, by definition (C19).  *)
(* A digraph is [n |-> N, adj |-> <<succ_1, .., succ_N>>] over vertices 1..N, *)
(* succ_v a sequence (insertion order of the adjacency mapping).             *)
EXTENDS Base

SccVerts(g) == 1..g.n
SccEdge(g, u, v) == BHas(g.adj[u], v)

\* reflexive-transitive closure by Warshall, as an n-step fold over pivot vertices
SccClosure(g) ==
  LET R0 == [u \in SccVerts(g) |-> [v \in SccVerts(g) |-> (u = v) \/ SccEdge(g, u, v)]]
  IN FoldLeft(LAMBDA R, k: [u \in SccVerts(g) |-> [v \in SccVerts(g) |->
                               R[u][v] \/ (R[u][k] /\ R[k][v])]],
              R0, BIota(g.n))

SccMutual(R, u, v) == R[u][v] /\ R[v][u]

\* the set of strongly connected components, by definition
SccComponents(g) ==
  LET R == SccClosure(g)
  IN { { v \in SccVerts(g) : SccMutual(R, u, v) } : u \in SccVerts(g) }

(* Normative clauses on a returned list of components `comps` (sequence of   *)
(* sequences of vertices).                                                   *)
SccIsPartition(g, comps) ==
  /\ \A i \in DOMAIN comps : BNoDup(comps[i]) /\ Len(comps[i]) > 0
  /\ \A i, j \in DOMAIN comps : i # j => BSeqSet(comps[i]) \cap BSeqSet(comps[j]) = {}
  /\ UNION { BSeqSet(comps[i]) : i \in DOMAIN comps } = SccVerts(g)

SccExact(g, comps) == { BSeqSet(comps[i]) : i \in DOMAIN comps } = SccComponents(g)

\* no component has an edge into a LATER one
SccDependencyOrdered(g, comps) ==
  \A i, j \in DOMAIN comps : i < j =>
     \A u \in BSeqSet(comps[i]), v \in BSeqSet(comps[j]) : ~SccEdge(g, u, v)

SccVerdict(g, comps) ==
  IF ~(\A i \in DOMAIN comps : \A k \in DOMAIN comps[i] : comps[i][k] \in SccVerts(g)) THEN "VerticesInRange"
  ELSE IF ~SccIsPartition(g, comps) THEN "Partition"
  ELSE IF ~SccExact(g, comps) THEN "ExactComponents"
  ELSE IF ~SccDependencyOrdered(g, comps) THEN "DependencyOrdered"
  ELSE "ok"

(* Nonterminal graph of an abstract grammar g (format: harness/ag.py):        *)
(* X -> Y iff some rule of X has a right-hand-side edge labelled by the      *)
(* nonterminal Y; every nonterminal is a vertex, also those without rules.   *)
SccNts(g) == { n \in DOMAIN g.els : ~g.els[n].t }
SccNtGraphEdges(g) ==
  { p \in UNION { { <<g.rules[i].lhs, g.rules[i].edges[k].lab>> : k \in DOMAIN g.rules[i].edges } :
                     i \in DOMAIN g.rules } : p[2] \in SccNts(g) }
SccNtVerdict(g, verts, edges, keys) ==
  \* verts: sequence of names, edges: sequence of <<x, y>>, keys: nonterminal keys of sum_products (or <<"-">>)
  IF BSeqSet(verts) # SccNts(g) \/ ~BNoDup(verts) THEN "NtGraphVertices"
  ELSE IF { <<edges[i][1], edges[i][2]>> : i \in DOMAIN edges } # SccNtGraphEdges(g) THEN "NtGraphEdges"
  ELSE IF keys # <<"-">> /\ BSeqSet(keys) # SccNts(g) THEN "EveryNonterminalGetsAValue"
  ELSE "ok"
=============================================================================
