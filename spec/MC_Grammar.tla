----------------------------- MODULE MC_Grammar -----------------------------
(* Spec as enumerator of inputs for C01/C04/C11: every start rule S -> rhs    *)
(* over a small universe of rule SHAPES -- up to MaxNodes nodes (label T,     *)
(* |T| = DomT), up to MaxEdges edges from the catalogue                       *)
(*   a:() nullary,  b:(T),  c:(T,T) (also attached twice to one node),        *)
(*   X:(T) a nonterminal with its own rule X(t) -> d(t),  N:() a nonterminal  *)
(*   WITHOUT rules (value zero),                                             *)
(* and any external sequence of up to MaxExt distinct nodes.  So edgeless     *)
(* nodes, edgeless externals, repeated attachments, nullary factors, rule-    *)
(* less nonterminals and starts of arity > 0 are all inside, exhaustively.    *)
(* R3: for every enumerated grammar the sum over DERIVATIONS (one derivation  *)
(* here: S then X) computed compositionally equals |N| Kleene steps, i.e.     *)
(* ZNonRec is stable: StepF(ZNonRec) = ZNonRec.                               *)
EXTENDS Semantics
CONSTANTS MaxNodes, MaxEdges, MaxExt, DomT
VARIABLE g

EdgeCat(n) == { [lab |-> "a", att |-> <<>>] } \cup { [lab |-> "N", att |-> <<>>] }
         \cup { [lab |-> "b", att |-> <<i>>] : i \in 1..n }
         \cup { [lab |-> "X", att |-> <<i>>] : i \in 1..n }
         \cup { [lab |-> "c", att |-> <<i, j>>] : i \in 1..n, j \in 1..n }
Els(ext) == [a |-> [t |-> TRUE, type |-> <<>>], b |-> [t |-> TRUE, type |-> <<"T">>],
             c |-> [t |-> TRUE, type |-> <<"T", "T">>], d |-> [t |-> TRUE, type |-> <<"T">>],
             X |-> [t |-> FALSE, type |-> <<"T">>], N |-> [t |-> FALSE, type |-> <<>>],
             S |-> [t |-> FALSE, type |-> [i \in DOMAIN ext |-> "T"]]]
Primes == <<2, 3, 5, 7, 11, 13, 17, 19, 23>>
WTab == [a |-> <<3>>, b |-> [i \in 1..DomT |-> Primes[i]], d |-> [i \in 1..DomT |-> Primes[i + 3]],
         c |-> [i \in 1..(DomT * DomT) |-> IF i = 2 THEN 0 ELSE Primes[i]]]
WmpTab == [a |-> <<1>>, b |-> [i \in 1..DomT |-> i - 2], d |-> [i \in 1..DomT |-> 2 - i],
           c |-> [i \in 1..(DomT * DomT) |-> IF i = 2 THEN NINF ELSE i - 3]]
Mk(n, es, ext) ==
  [nls |-> [T |-> DomT], els |-> Els(ext), elorder |-> <<"S", "X", "N", "a", "b", "c", "d">>, start |-> "S",
   rules |-> << [lhs |-> "S", nodes |-> [i \in 1..n |-> "T"], edges |-> es, ext |-> ext],
                [lhs |-> "X", nodes |-> <<"T">>, edges |-> <<[lab |-> "d", att |-> <<1>>]>>, ext |-> <<1>>] >>,
   w |-> WTab, wmp |-> WmpTab]

Init == \E n \in 0..MaxNodes :
          \E es \in BSeqsUpTo(EdgeCat(n), MaxEdges) :
            \E ext \in { x \in BSeqsUpTo(1..n, MaxExt) : BNoDup(x) } :
               g = Mk(n, es, ext)
Next == UNCHANGED g
Stable == \A sr \in {"nat", "mp", "bool"} : StepF(sr, g, ZNonRec(sr, g)) = ZNonRec(sr, g)
IsNonRec == NonRecursive(g)
Dump == PrintT(ToJson(g))
=============================================================================
