--------------------------- MODULE Trace_Factorize ---------------------------
(* Batch judge for C05: one case = one observed call of factorize_rule /       *)
(* factorize_hrg / factorize_fgg:                                             *)
(*   names : edge-label names in use before the call                          *)
(*   orig  : the rules given, new : the rules returned, method, entry          *)
(*   start/terms before and after (grammar entries)                           *)
EXTENDS Factorize
VARIABLE tid
Cases == JsonDeserialize("cases.json")
Init == tid \in 1..Len(Cases)
Next == UNCHANGED tid
Verdict(c) ==
  IF c.out # "ok" THEN "Raised"
  ELSE IF c.entry # "rule" /\ c.start_after # c.start_before THEN "SameStartSymbol"
  ELSE IF c.entry # "rule" /\ BSeqSet(c.terms_after) # BSeqSet(c.terms_before) THEN "SameTerminals"
  ELSE IF c.entry = "fgg" /\ ~c.same_interp THEN "SameDomainsAndFactors"
  ELSE FzClause(c)
Judge == LET c == Cases[tid] IN PrintT(ToJson([gtid |-> c.gtid, v |-> Verdict(c), tags |-> <<c.entry, c.method>>]))
=============================================================================
