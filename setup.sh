#!/bin/sh
# Offline setup: nothing is installed; verify tools and parse every spec module.
set -e
cd "$(dirname "$0")"
command -v java >/dev/null
test -f /opt/veriftools/tla/tla2tools.jar
/venv/bin/python -c "import torch, sys; sys.path.insert(0,'/repo'); import fggs"
fail=0
for f in spec/*.tla; do
  out=$(cd spec && java -cp /opt/veriftools/tla/tla2tools.jar:/opt/veriftools/tla/CommunityModules-deps.jar tla2sany.SANY "$(basename "$f")" 2>&1) || true
  if echo "$out" | grep -q -E "Semantic errors|Parse Error|Fatal errors|Could not"; then echo "SANY FAILED: $f"; echo "$out" | tail -20; fail=1; fi
done
mkdir -p evidence replays
[ $fail -eq 0 ] && echo "setup ok"
exit $fail
