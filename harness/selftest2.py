"""Generic trace-corruption self-test (binding demonstration for EVERY trace judge).

For each registered check, the quick tier is executed on the unchanged tree while `common.judge_batch` is
intercepted: the cases handed to TLC, the verdicts, and the judging parameters are captured.  Then, for a
sample of ACCEPTED cases of every judge module, ONE recorded observation is corrupted (a tensor cell, an
outcome, a boolean answer, a list element dropped ...) along the observation paths declared below, and the
corrupted cases are judged again with the same parameters.  A judge that is bound to what was recorded
rejects them.  Results go to SELFTEST.md (counts per judge module and path); a path whose corruptions are
never rejected is reported as UNBOUND.

usage:  /venv/bin/python -m harness.selftest2 [ID ...] [--dump]     (needs the same environment as ./check)
"""
from __future__ import annotations
import copy, importlib, json, random, sys, time
from . import common
from .common import Scratch, MachineryFailure

# judge module -> list of observation paths ('*' = any element / key).  Only fields the DRIVER recorded from the real code.
OBS = {
    'Trace_SumProduct': ['runs.*.res.*.*', 'runs.*.out'],
    'Trace_Recursive': ['runs.*.res.*.*', 'runs.*.out', 'runs.*.warned'],
    'Trace_Solver': ['trace.*', 'warned'],
    'Trace_Grad': ['runs.*.grads.*.*', 'runs.*.out'],
    'Trace_Viterbi': ['d.*.rule', 'assts.*.*', 'vit', 'dw', 'out'],
    'Trace_Factorize': ['new.*.edges', 'new.*.nodes', 'out', 'labels_after'],
    'Trace_Tensor': ['obs.flat.*', 'obs.shape', 'out', 'equal', 'equal_rev', 'close.*.r', 'tdef', 'r'],
    'Trace_Einsum': ['res.*', 'shape', 'out'],
    'Trace_Semiring': ['R.*', 'addl', 'mull', 'distl', 'ab', 'mab', 'a0', 'az', 'r', 'sum', 'addfold', 'out', 'r2'],
    'Trace_LinSolve': ['X.*.*', 'out', 'unchanged'],
    'Trace_TreeDec': ['td.*.t.bags', 'td.*.t.tedges', 'mf.w', 'mf.order', 'lb', 'td.*.out'],
    'Trace_Config': ['runs.*.res.*.*', 'runs.*.out', 'runs.*.grads.*.*'],
    'Trace_Present': ['runs.*.res.*.*', 'runs.*.out', 'runs.*.grads.*.*'],
    'Trace_Json': ['j1.grammar.rules', 'j1.grammar.start', 'j1.interpretation.factors.*.weights.flat.*', 'out1', 'out2', 'dumps', 'out'],
    'Trace_Derive': ['final.edges', 'final.nodes', 'steps.*.post.edges', 'steps.*.post.nodes', 'steps.*.out'],
    'Trace_Graphs': ['out', 'eq.*.*'],
    'Trace_Conjoin': ['h.rules', 'h.start', 'out', 'h.rules.*.edges', 'h.rules.*.ext'],
    'Trace_Session': ['events.*.post', 'events.*.res', 'events.*.out'],
    'Trace_Scc': ['comps', 'comps.*', 'verts', 'edges', 'keys', 'out'],
    'Trace_AxisAlg': ['ok', 'sg.*', 'gs.*', 'off', 'st.*.c', 'ix.*.ok', 'numel', 'zero', 'out'],
    'Trace_Domains': ['obs.size', 'obs.num.*', 'obs.den.*', 'obs.con.*', 'eq', 'out', 'arity', 'app.*', 'shape', 'second_rejected'],
}
INTMAX = 900000


def _walk(obj, parts, rng):
    """follow parts into obj, choosing at '*'; returns (container, key) of the leaf or None"""
    cur = obj
    for i, p in enumerate(parts):
        last = i == len(parts) - 1
        if p == '*':
            if isinstance(cur, dict) and cur:
                k = rng.choice(sorted(cur))
            elif isinstance(cur, list) and cur:
                k = rng.randrange(len(cur))
            else:
                return None
        else:
            if isinstance(cur, dict) and p in cur:
                k = p
            else:
                return None
        if last:
            return cur, k
        cur = cur[k]
    return None


def _mutate(v, rng):
    """a different value of the same kind; None if this value cannot be corrupted meaningfully"""
    if isinstance(v, bool):
        return not v
    if isinstance(v, int):
        return v + 3 if abs(v) < INTMAX else 0
    if isinstance(v, float):
        return v + 3.0
    if isinstance(v, str):
        if v == 'ok':
            return 'raise:RuntimeError'
        if v.startswith('raise'):
            return 'ok'
        return v + '~'
    if isinstance(v, list):
        if len(v) == 2 and all(isinstance(x, int) and not isinstance(x, bool) for x in v):
            # an interval [lo, hi] (or a pair): shift
            return [x + 3 if abs(x) < INTMAX else 0 for x in v]
        if v:
            return v[:-1]
        return None
    if isinstance(v, dict):
        if v:
            d = dict(v)
            d.pop(sorted(d)[0])
            return d
        return None
    return None


def corrupt(case, paths, rng):
    """returns (corrupted copy, path used) or None"""
    order = list(paths)
    rng.shuffle(order)
    for path in order:
        c = copy.deepcopy(case)
        hit = _walk(c, path.split('.'), rng)
        if hit is None:
            continue
        cont, k = hit
        nv = _mutate(cont[k], rng)
        if nv is None or nv == cont[k]:
            continue
        cont[k] = nv
        return c, path
    return None


class Capture:
    def __init__(self):
        self.calls = []
        self.orig = common.judge_batch

    def __call__(self, work, module, cases, **kw):
        res = self.orig(work, module, cases, **kw)
        self.calls.append({'module': module, 'cases': cases, 'verdicts': res[0], 'kw': kw})
        return res


def run_check_captured(pid):
    cap = Capture()
    common.judge_batch = cap
    try:
        mod = importlib.import_module(f'harness.props.{pid.lower()}')
        for name in dir(mod):          # modules did `from ..common import *`: rebind their copy as well
            if name == 'judge_batch':
                setattr(mod, name, cap)
        for dep in ('c01', 'c04', 'c05', 'c06', 'c07', 'c16', 'c17'):
            try:
                m2 = importlib.import_module(f'harness.props.{dep}')
                if hasattr(m2, 'judge_batch'):
                    m2.judge_batch = cap
            except Exception:
                pass
        o = mod.run('quick', 0)
    finally:
        common.judge_batch = cap.orig
    return cap.calls, o


def selftest(pid, per_module=24, dump=False):
    rng = random.Random(f'selftest:{pid}')
    calls, o = run_check_captured(pid)
    rows = []
    with Scratch() as work:
        for ci, call in enumerate(calls):
            module = call['module']
            paths = OBS.get(module)
            if not paths:
                rows.append((pid, module, '(no observation paths declared)', 0, 0))
                continue
            ok_idx = [i for i, c in enumerate(call['cases']) if call['verdicts'][i + 1].get('v') == 'ok']
            if dump and ok_idx:
                print(f'--- {pid} {module}: accepted case sample\n' + json.dumps(call['cases'][ok_idx[0]], default=str)[:1500])
            rng.shuffle(ok_idx)
            bad, used = [], []
            tries = 0
            while len(bad) < per_module and tries < 6 * per_module and ok_idx:
                tries += 1
                c = call['cases'][ok_idx[tries % len(ok_idx)]]
                r = corrupt(c, paths, rng)
                if r is None:
                    continue
                bad.append(r[0])
                used.append(r[1])
            if not bad:
                rows.append((pid, module, '(no corruptible accepted case)', 0, 0))
                continue
            kw = dict(call['kw'])
            kw.pop('shards', None)
            try:
                v, _, _, _ = common.judge_batch(work / f'bad{ci}', module, bad, **kw)
            except MachineryFailure as e:
                # a corrupted record may be ill-formed for the judge (TLC evaluation error): that is a rejection
                # of the whole batch, counted conservatively one by one
                v = {}
                for k, b in enumerate(bad):
                    try:
                        vv, _, _, _ = common.judge_batch(work / f'bad{ci}_{k}', module, [b], **kw)
                        v[k + 1] = vv[1]
                    except MachineryFailure:
                        v[k + 1] = {'v': 'ILL-FORMED'}
            bypath = {}
            for k, p in enumerate(used):
                rej = v[k + 1].get('v') != 'ok'
                a, b = bypath.get(p, (0, 0))
                bypath[p] = (a + int(rej), b + 1)
            for p, (a, b) in sorted(bypath.items()):
                rows.append((pid, module, p, a, b))
    return rows


def main(argv):
    dump = '--dump' in argv
    ids = [a.upper() for a in argv if not a.startswith('--')] or [f'C{i:02d}' for i in range(1, 21)]
    allrows = []
    for pid in ids:
        t0 = time.time()
        try:
            rows = selftest(pid, dump=dump)
        except Exception as e:  # noqa
            rows = [(pid, '-', f'(self-test failed: {e!r})'[:120], 0, 0)]
        allrows += rows
        for r in rows:
            print(f'{r[0]} {r[1]:18s} {r[2]:50s} rejected {r[3]}/{r[4]}', flush=True)
        print(f'   [{pid} {time.time() - t0:.0f}s]', flush=True)
    return allrows


if __name__ == '__main__':
    rows = main(sys.argv[1:])
    if '--write' in sys.argv:
        lines = ['# Trace-corruption self-test', '',
                 'Accepted cases of every trace judge, ONE recorded observation corrupted each (harness/selftest2.py), judged again.',
                 'A path with rejections < corruptions is not a defect by itself (a shifted interval may still contain the expected value, a',
                 'dropped element may be one the clause does not look at); a path with 0 rejections is UNBOUND and listed as such.', '',
                 '| check | judge | observation path | rejected / corrupted |', '|---|---|---|---|']
        for r in rows:
            flag = ' **UNBOUND**' if r[4] > 0 and r[3] == 0 else ''
            lines.append(f'| {r[0]} | {r[1]} | `{r[2]}` | {r[3]} / {r[4]}{flag} |')
        (common.VERIF / 'SELFTEST.md').write_text('\n'.join(lines) + '\n')
