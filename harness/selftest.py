"""Trace-corruption self-test: demonstrates that the trace judges are BOUND to what was recorded.
For a family of checks, take cases the judge accepted on the unchanged tree, corrupt one recorded
field each (a tensor cell, a component, an outcome, a projected node, ...) and require that TLC
rejects every corrupted case, with the expected clause.

usage:  /venv/bin/python -m harness.selftest [ID ...]      exit 0 = every corruption rejected
"""
from __future__ import annotations
import copy, json, sys
from .common import *
from . import ag as AG


def _c19():
    from .props import c19
    rng = rng_for(1, 'st19')
    cases = []
    for n in (3, 4, 5):
        adj = [[(v % n) + 1] for v in range(1, n + 1)]          # one big cycle
        adj[0].append(1)
        cases.append(c19._drive_scc({'n': n, 'adj': adj + []}, list(range(1, n + 1))))
        adj2 = [[v + 1] if v < n else [] for v in range(1, n + 1)]  # a path: n singleton components in dependency order
        cases.append(c19._drive_scc({'n': n, 'adj': adj2}, list(range(1, n + 1))))
    out = []
    for c in cases:
        if len(c['comps']) > 1:
            d = copy.deepcopy(c)
            d['comps'] = list(reversed(d['comps']))
            out.append((d, 'DependencyOrdered'))
            d = copy.deepcopy(c)
            d['comps'] = d['comps'][:-1]
            out.append((d, 'Partition'))
        else:
            d = copy.deepcopy(c)
            d['comps'] = [d['comps'][0][:1], d['comps'][0][1:]]
            out.append((d, 'ExactComponents'))
    return 'Trace_Scc', cases, out


def _c01():
    from .props import c01
    rng = rng_for(1, 'st01')
    cases = [c01.make_case(AG.gen_ag(rng, recursion='none', **c01.RANDOM_PROFILES[0]), 'quick', i) for i in range(6)]
    out = []
    for c in cases:
        d = copy.deepcopy(c)
        r = d['runs'][0]
        X = sorted(r['res'])[0]
        lo, hi = r['res'][X][0]
        r['res'][X][0] = [lo + 1, hi + 1]
        out.append((d, 'SumProductEqualsDefinition'))
        d = copy.deepcopy(c)
        del d['runs'][1]['res'][sorted(d['runs'][1]['res'])[0]]
        out.append((d, 'EveryNonterminalHasAValue'))
        d = copy.deepcopy(c)
        d['runs'][2]['out'] = 'raise:RuntimeError'
        out.append((d, 'Raised'))
    return 'Trace_SumProduct', cases, out


def _c10():
    from .props import c10
    gs = [g for g in c10.structured_graphs() if 3 <= g['n'] <= 5][:8]
    cases = [c10.drive(g, range(1, g['n'] + 1)) for g in gs]
    out = []
    for c in cases:
        t = c['td']['min_fill']['t']
        if len(t['bags']) >= 2:
            d = copy.deepcopy(c)
            d['td']['min_fill']['t']['tedges'] = d['td']['min_fill']['t']['tedges'][:-1]
            out.append((d, 'BagsFormATree'))
        d = copy.deepcopy(c)
        b = d['td']['acb']['t']['bags']
        v = b[0][0] if b[0] else None
        if v is not None and sum(1 for x in b if v in x) == 1 and len(b[0]) > 0:
            b[0].remove(v)
            out.append((d, None))          # vertex or edge no longer covered
        d = copy.deepcopy(c)
        d['mf']['w'] += 1
        out.append((d, 'MinFillReportsItsWidth'))
    return 'Trace_TreeDec', cases, out


def _c15():
    from .props import c15
    rng = rng_for(1, 'st15')
    cases = []
    while len(cases) < 6:
        a = AG.gen_ag(rng, n_nts=(1, 3), max_rules=2, max_nodes=3, max_edges=3, recursion='any', weights='small', p_norules=0.0,
                      dom_sizes=(1, 2), value_cap=1 << 30)
        d = c15.gen_tree(rng, a, 4)
        if d is None or len(d) < 2:
            continue
        cases.append(c15.run_linearisation(c15._slim(a), d, list(range(1, len(d) + 1))))
    out = []
    for c in cases:
        d = copy.deepcopy(c)
        if d['final']['edges']:
            d['final']['edges'] = d['final']['edges'][:-1]
            out.append((d, 'AnyOrderYieldsTheDerivedGraph'))
        d = copy.deepcopy(c)
        s = d['steps'][-1]
        if s['post']['nodes']:
            s['post']['nodes'] = s['post']['nodes'][:-1]
            out.append((d, None))
        d = copy.deepcopy(c)
        d['steps'][0]['post']['edges'].append(d['steps'][0]['e'])
        out.append((d, 'RemovesTheEdge'))
    return 'Trace_Derive', cases, out


def _c07():
    from .props import c07
    cases = [c for c in (c07.drive((1, i)) for i in range(40)) if c['out'] == 'ok' and c['res'] and not c['viterbi']][:8]
    out = []
    for c in cases:
        d = copy.deepcopy(c)
        lo, hi = d['res'][0]
        d['res'][0] = [lo + 1, hi + 1] if lo < 900000 and lo > -900000 else [0, 0]
        out.append((d, 'EinsumEqualsDefinition'))
        d = copy.deepcopy(c)
        d['shape'] = d['shape'] + [1]
        out.append((d, 'ResultShape'))
    return 'Trace_Einsum', cases, out


def _c16():
    from .props import c16
    from .graphsdrv import Session
    calls = [{'op': 'add_node', 'h': 'g1', 'n': {'id': 'x', 'l': 'A'}},
             {'op': 'add_edge', 'h': 'g1', 'e': {'id': 'e', 'lab': {'name': 'a', 'type': ['A'], 't': True}, 'att': [{'id': 'x', 'l': 'A'}]}},
             {'op': 'add_node', 'h': 'g1', 'n': {'id': 'x', 'l': 'A'}},
             {'op': 'copy', 'h': 'g1'}]
    S = Session('graph')
    states, events = [], []
    for c in calls:
        pre = S.pheap()
        out = S.apply(c)
        post = S.pheap()
        states += [pre, post]
        events.append({'pre': len(states) - 1, 'post': len(states), 'call': c, 'out': out, 'eq': S.eq_matrix(), 'sharers': []})
    bad = []
    # (a) the recorded post-state of add_edge loses the attached node
    st = copy.deepcopy(states)
    st[3]['g1']['nodes'] = []
    bad.append((st, copy.deepcopy(events[1]), 'AttachedAreNodes'))
    # (b) the raising add_node is recorded as having changed the graph
    st = copy.deepcopy(states)
    st[5]['g1']['nls'] = ['A', 'Z']
    bad.append((st, copy.deepcopy(events[2]), 'FailureAtomic'))
    # (c) the copy is recorded without its label table
    st = copy.deepcopy(states)
    st[7]['g2']['els'] = []
    bad.append((st, copy.deepcopy(events[3]), 'CopyEqualsOriginal'))
    # (d) == recorded as false between the graph and its copy
    e = copy.deepcopy(events[3])
    e['eq']['g1']['g2'] = False
    e['eq']['g2']['g1'] = False
    bad.append((copy.deepcopy(states), e, 'CopyComparesEqual'))
    return states, events, bad


def run_family(name):
    ok = True
    with Scratch() as work:
        if name == 'C16':
            states, events, bad = _c16()
            v, _, _, _ = judge_batch(work / 'good', 'Trace_Graphs', events, shared={'states.json': states})
            acc = sum(1 for x in v.values() if x['v'] == 'ok')
            rej = 0
            for i, (st, ev, clause) in enumerate(bad):
                vv, _, _, _ = judge_batch(work / f'bad{i}', 'Trace_Graphs', [ev], shared={'states.json': st})
                got = vv[1]['v']
                good = got != 'ok' and (clause is None or got == clause)
                rej += good
                if not good:
                    ok = False
                    print(f'  SELFTEST-MISS {name}: corruption expected {clause}, judge said {got}')
            print(f'{name}: {acc}/{len(events)} recorded events accepted, {rej}/{len(bad)} corrupted events rejected')
            return ok and acc == len(events)
        module, cases, bad = {'C19': _c19, 'C01': _c01, 'C10': _c10, 'C15': _c15, 'C07': _c07}[name]()
        v, _, _, _ = judge_batch(work / 'good', module, cases)
        acc = sum(1 for x in v.values() if x['v'] == 'ok')
        vb, _, _, _ = judge_batch(work / 'bad', module, [b for b, _ in bad])
        rej = 0
        for i, (_, clause) in enumerate(bad):
            got = vb[i + 1]['v']
            good = got != 'ok' and (clause is None or got == clause)
            rej += good
            if not good:
                ok = False
                print(f'  SELFTEST-MISS {name}: corruption {i} expected {clause}, judge said {got}')
        print(f'{name}: {acc}/{len(cases)} recorded cases accepted, {rej}/{len(bad)} corrupted cases rejected')
        return ok and acc == len(cases)


if __name__ == '__main__':
    names = [a.upper() for a in sys.argv[1:]] or ['C01', 'C07', 'C10', 'C15', 'C16', 'C19']
    allok = True
    for n in names:
        try:
            allok = run_family(n) and allok
        except MachineryFailure as e:
            print(f'{n}: machinery failure {e}')
            allok = False
    sys.exit(0 if allok else 2)
