"""./check <ID> [--tier quick|thorough] [--replay PATH]"""
from __future__ import annotations
import argparse, importlib, os, sys, traceback, json
from . import common


def main(argv=None):
    ap = argparse.ArgumentParser()
    ap.add_argument('pid')
    ap.add_argument('--tier', default=os.environ.get('VERIF_TIER', 'quick'), choices=['quick', 'thorough'])
    ap.add_argument('--replay', default=None)
    ap.add_argument('--selftest', action='store_true')
    a = ap.parse_args(argv)
    seed = int(os.environ.get('VERIF_SEED', '0') or 0)
    pid = a.pid.upper()
    try:
        mod = importlib.import_module(f'harness.props.{pid.lower()}')
    except ModuleNotFoundError as e:
        print(f'no check for {pid}: {e}', file=sys.stderr)
        return 2
    try:
        findings = common.load_findings()
        if a.replay:
            o = mod.replay(a.replay, seed)
        elif a.selftest:
            return mod.selftest(seed)
        else:
            o = mod.run(a.tier, seed)
        return common.finish(o, findings)
    except common.MachineryFailure as e:
        print(f'MACHINERY-FAILURE property={pid}: {e}', file=sys.stderr)
        return 2
    except Exception:
        traceback.print_exc()
        print(f'MACHINERY-FAILURE property={pid}: unexpected exception in harness', file=sys.stderr)
        return 2


if __name__ == '__main__':
    sys.exit(main())
