"""C19 -- SCCs correct and dependency-ordered; nonterminal_graph by definition.

gen   : TLC enumerates (MC_Scc) every digraph on <= N vertices with every adjacency
        insertion order (R1, spec as enumerator; R3 invariants on the definition);
        seeded random digraphs up to 8 vertices; seeded abstract grammars.
drive : fggs.utils.scc on a dict built in each vertex insertion order;
        fggs.utils.nonterminal_graph on the real HRG; keys of sum_products.
judge : Trace_Scc (TLC) -- partition / exact components / dependency order.
"""
from __future__ import annotations
import itertools, json, warnings
from ..common import *
from .. import ag as AG

PID = 'C19'


def _gen_tlc(work, maxn, allorders, o: Outcome):
    cfg = (f'INIT Init\nNEXT Next\nCONSTANTS MaxN = {maxn}\nAllOrders = {"TRUE" if allorders else "FALSE"}\n'
           'INVARIANT DefPartition\nINVARIANT DefAcyclic\nINVARIANT Dump\nCHECK_DEADLOCK FALSE\n')
    r = run_tlc(work / 'gen', 'MC_Scc', cfg, workers=1, heap='4g')
    o.add_tlc(r)
    return [g for g in r.printed if isinstance(g, dict) and 'adj' in g]


def _r3_tarjan(work, tier, o: Outcome):
    """R3: the Tarjan machine (spec/Tarjan.tla) refines the definitional Scc module on every digraph
    of the bound, every adjacency iteration order and (thorough) every key order; TLC checks the
    machine's invariants in every state of every behaviour."""
    invs = ['StackIsVisitedMinusEmitted', 'StackOrderedByIndex', 'LowBelowIdx', 'FramesOnStack', 'FramesArePath',
            'EmittedAreComponents', 'FinalOK', 'RunAgrees', 'Terminates']
    cfg = ('INIT Init\nNEXT Next\nCONSTANTS MaxN = 3\nAllOrders = TRUE\n'
           f'AllRoots = {"TRUE" if tier == "thorough" else "FALSE"}\n'
           + ''.join(f'INVARIANT {i}\n' for i in invs) + 'CHECK_DEADLOCK FALSE\n')
    r = run_tlc(work / 'tarjan', 'MC_Tarjan', cfg, workers=8, heap='4g', decode=False)
    o.add_tlc(r)
    o.extra['tarjan_machine_states'] = r.states
    o.extra['tarjan_machine_invariants'] = invs


# vertex objects: scc() takes any hashable vertices -- 0, '', () and 0.0 are as good as any other
NAMINGS = {'int1': lambda v: v, 'int0': lambda v: v - 1, 'str': lambda v: '' if v == 1 else 'v' * (v - 1),
           'tuple': lambda v: tuple(range(v - 1)), 'float': lambda v: float(v - 1)}


def _drive_scc(g, order, naming='int1'):
    from fggs.utils import scc
    n = g['n']
    visits = []
    nm = NAMINGS[naming]
    back = {nm(v): v for v in range(1, n + 1)}

    class Logged(dict):
        """the adjacency mapping, logging every read of g[v]: the code reads it once per visit(v),
        so this is the entry order of the depth-first search, observed without touching the code"""
        def __getitem__(self, k):
            visits.append(k)
            return dict.__getitem__(self, k)
    d = Logged()
    for v in order:
        d[nm(v)] = {nm(w): None for w in g['adj'][v - 1]}
    try:
        with warnings.catch_warnings():
            warnings.simplefilter('ignore')
            comps = scc(d)
        return {'kind': 'scc', 'g': g, 'order': list(order), 'out': 'ok', 'naming': naming,
                'comps': [[back[x] for x in c] for c in comps], 'visits': [back[x] for x in visits]}
    except Exception as e:  # noqa
        return {'kind': 'scc', 'g': g, 'order': list(order), 'out': 'raise:' + type(e).__name__, 'comps': [], 'naming': naming,
                'visits': [back.get(x, 0) for x in visits]}


def _nt_case(stage, ng, keys):
    return {'kind': 'nt', 'g': {'els': stage['els'], 'rules': [{'lhs': r['lhs'], 'edges': [{'lab': e['lab']} for e in r['edges']]}
                                                           for r in stage['rules']]},
            'verts': [x.name for x in ng], 'edges': [[x.name, y.name] for x in ng for y in ng[x]],
            'keys': keys, 'out': 'ok'}


def _drive_nt(a, with_keys, detour_rng=None):
    """nonterminal_graph observed after EVERY step of the construction history of the grammar
    (a query between mutations must see the mutation), then keys of sum_products at the end."""
    import fggs
    from fggs.utils import nonterminal_graph
    cases = []

    def on_step(g, stage):
        try:
            cases.append(_nt_case(stage, nonterminal_graph(g), ['-']))
        except Exception as e:  # noqa
            c = _nt_case(stage, {}, ['-'])
            c['out'] = 'raise:' + type(e).__name__
            cases.append(c)
    try:
        AG.build_incremental(a, on_step, detour_rng=detour_rng)
    except Exception as e:  # noqa
        raise MachineryFailure(f'incremental construction failed: {e!r}')
    if with_keys:
        full = dict(a)
        case = _nt_case(full, {}, ['-'])
        try:
            g, _ = AG.build_fgg(a, 'bool')
            ng = nonterminal_graph(g)
            with warnings.catch_warnings():
                warnings.simplefilter('ignore')
                sp = fggs.sum_products(g, semiring=fggs.BoolSemiring())
            case = _nt_case(full, ng, [k.name for k in sp if k.is_nonterminal])
        except Exception as e:  # noqa
            case['out'] = 'raise:' + type(e).__name__
        cases.append(case)
    return cases


def _cases(tier, seed, work, o: Outcome):
    cases = []
    if tier == 'quick':
        graphs = _gen_tlc(work, 3, True, o)
        perms = lambda n: itertools.permutations(range(1, n + 1))
    else:
        graphs = _gen_tlc(work, 3, True, o) + [g for g in _gen_tlc(work / 'n4', 4, False, o) if g['n'] == 4]
        perms = lambda n: (itertools.permutations(range(1, n + 1)) if n <= 3
                           else [tuple(range(1, n + 1)), tuple(range(n, 0, -1)), (2, 4, 1, 3)])
    o.extra['tlc_enumerated_digraphs'] = len(graphs)
    names = list(NAMINGS)
    for gi, g in enumerate(graphs):
        for pi, p in enumerate(perms(g['n'])):
            cases.append(_drive_scc(g, p))
            if g['n'] >= 2:         # the same run on other vertex objects (falsy ones included)
                cases.append(_drive_scc(g, p, names[1 + (gi + pi) % (len(names) - 1)]))
    o.exhaustive = True
    rng = rng_for(seed, 'c19')
    nrand = 400 if tier == 'quick' else 6000
    for _ in range(nrand):
        n = rng.randint(4, 8)
        dens = rng.choice([0.1, 0.2, 0.35, 0.5])
        adj = []
        for u in range(1, n + 1):
            s = [v for v in range(1, n + 1) if rng.random() < dens]
            rng.shuffle(s)
            adj.append(s)
        order = list(range(1, n + 1))
        rng.shuffle(order)
        cases.append(_drive_scc({'n': n, 'adj': adj}, order, rng.choice(names)))
    nnt = 100 if tier == 'quick' else 1500
    for i in range(nnt):
        a = AG.gen_ag(rng, n_nts=(1, 4), recursion='any', max_edges=3, max_nodes=2, p_norules=0.3,
                      weights='small', allow_unused_terms=True)
        if i % 4 == 1:
            a = AG.add_shared_rhs_twin(rng, a)     # two rules (different left-hand sides) sharing ONE right-hand-side object
        cases.extend(_drive_nt(a, with_keys=(i % 2 == 0), detour_rng=(rng_for(seed, f'c19detour{i}') if i % 3 == 0 else None)))
    return cases


def run(tier, seed):
    o = Outcome(PID, tier, seed)
    o.assumptions = ['digraph vertices are hashable ints; adjacency given as dict of dicts as fggs.utils.scc expects',
                     'exhaustive part bounded by the vertex bound stated in coverage.bounds']
    o.extra['bounds'] = {'tlc_vertices': 3 if tier == 'quick' else 4, 'random_vertices': 8}
    with Scratch() as work:
        _r3_tarjan(work, tier, o)
        cases = _cases(tier, seed, work, o)
        verdicts, st, tr, _ = judge_batch(work / 'judge', 'Trace_Scc', cases, per_shard_min=400)
        o.states += st
        o.transitions += tr
        o.absorb_verdicts(cases, verdicts, load_findings())
        for c in cases[:1] + cases[-1:]:
            o.sample(c)
        o.extra['tarjan_model_drift'] = sum(1 for v in verdicts.values() if v.get('drift', 'none') != 'none')
        o.extra['tarjan_runs_replayed'] = sum(1 for c in cases if c['kind'] == 'scc' and c['out'] == 'ok')
        nontriv = sum(1 for c in cases if c['kind'] == 'scc' and any(len(x) > 1 for x in c['comps']))
        o.extra['cases_with_nontrivial_component'] = nontriv
    return o


def replay(path, seed):
    rec = json.loads(open(path).read())
    c = rec['case']
    o = Outcome(PID, 'quick', seed)
    with Scratch() as work:
        if c['kind'] == 'scc':
            c2 = _drive_scc(c['g'], c['order'], c.get('naming', 'int1'))
        else:
            raise MachineryFailure('nt replay needs the full grammar; re-run the check with the same seed')
        verdicts, st, tr, _ = judge_batch(work, 'Trace_Scc', [c2])
        o.states, o.transitions = st, tr
        o.absorb_verdicts([c2], verdicts, load_findings())
        o.sample(c2)
    return o
