"""C01 -- sum-product of a non-recursive FGG equals its definition.

gen   : TLC (MC_Grammar) enumerates every start-rule SHAPE of a small universe (R3: the
        definitional value is a fixed point of the grammar's equations); seeded random
        abstract grammars (1-4 nonterminals, zero / infinite weights, unreachable and
        rule-less nonterminals, start arity > 0).
drive : fggs.sum_products(g, method=, semiring=) for 4 semirings x 3 methods x 2 dtypes.
judge : Trace_SumProduct (TLC): every entry of every nonterminal's tensor equals the
        sum over assignments / derivations computed by Semantics.tla on exact carriers.
"""
from __future__ import annotations
import json, warnings
from ..common import *
from .. import ag as AG

PID = 'C01'
METHODS = ('fixed-point', 'newton', 'linear')
CARRIER = {'real': 'nat', 'log': 'nat', 'mp': 'mp', 'bool': 'bool'}


def run_config(a, kind, method, dtype, extra_opts=None, build_opts=None, pat=None):
    """One observed sum_products call -> run record for the judge."""
    import torch, fggs
    tag = [kind, method, str(dtype).replace('torch.', '')] + ([json.dumps(extra_opts, sort_keys=True)] if extra_opts else []) \
          + (sorted(build_opts) if build_opts else []) + (['patterned_weights'] if pat else [])
    run = {'sr': CARRIER[kind], 'tag': tag, 'out': 'ok', 'res': {}, 'partial': False}
    try:
        bo = dict(build_opts or {})
        if pat:
            bo['patterned'] = AG.pattern_hooks(pat)
        hist = bo.pop('history', None)
        tiny = bo.pop('tiny_start', False)
        a_orig = a
        if tiny:
            import copy
            a = copy.deepcopy(a)
            a['els']['lam'] = {'t': True, 'type': []}
            a['elorder'] = a['elorder'] + ['lam']
            a['w']['lam'], a['wmp']['lam'] = [1], [0]
            for r_ in a['rules']:
                if r_['lhs'] == a['start']:
                    r_['edges'].append({'lab': 'lam', 'att': []})
        if hist == 'rule_added_later' and len(a['rules']) >= 2:
            bo['defer_rules'] = 1
        g, info = AG.build_fgg(a, kind, dtype, **bo)
        if hist:
            # a HISTORY on the same object: a query on an earlier state of the grammar (one rule missing / other weights),
            # then the change, then the judged query -- anything remembered from the first query must not leak into the second
            olds = {}
            if hist == 'weights_changed':
                for t in AG.terms_of(a):
                    w = g.factors[t].weights
                    if any(st_ == 0 and n_ > 1 for st_, n_ in zip(w.physical.stride(), w.physical.shape)):
                        continue                    # a stride-0 view cannot be written in place: left alone
                    olds[t] = w.physical.clone()
                    if w.physical.dtype == torch.bool:
                        w.physical.logical_not_()
                    else:
                        w.physical.copy_(torch.ones_like(w.physical) if kind == 'real' else torch.zeros_like(w.physical))
            try:
                with warnings.catch_warnings():
                    warnings.simplefilter('ignore')
                    with torch.no_grad():
                        fggs.sum_products(g, method=method, semiring=AG.semiring_for(kind, dtype), **(extra_opts or {}))
            except Exception:
                pass
            if hist == 'rule_added_later' and 'add_deferred' in info:
                info['add_deferred']()
            if hist == 'weights_changed':
                for k, t in enumerate(AG.terms_of(a)):
                    if t not in olds:
                        continue
                    w = g.factors[t].weights
                    if k % 2 == 0:
                        w.physical.copy_(olds[t])                                  # in place, behind the factor's back
                    else:
                        from fggs.indices import PatternedTensor
                        g.factors[t].weights = PatternedTensor(olds[t], w.paxes, w.vaxes, w.default)   # through the setter
        if tiny:
            g.factors['lam'].weights = torch.tensor(2.0 ** -40, dtype=dtype)
        with warnings.catch_warnings(record=True) as wl:
            warnings.simplefilter('always')
            with torch.no_grad():
                sp = fggs.sum_products(g, method=method, semiring=AG.semiring_for(kind, dtype), **(extra_opts or {}))
        run['warnings'] = [str(w.message)[:80] for w in wl if 'iteration' in str(w.message)]
        for el, t in sp.items():
            if el.is_nonterminal:
                d = t.to_dense()
                if tiny and el.name == a['start']:
                    d = d * (2.0 ** 40)            # exact: a power of two
                run['res'][el.name] = AG.project_tensor(d, kind, dtype)
    except Exception as e:  # noqa
        run['out'] = 'raise:' + type(e).__name__
        run['err'] = str(e)[:200]
    return run


def _mk(args):
    return make_case(*args)


def make_case(a, tier, idx=0):
    import torch
    runs = []
    for kind in ('real', 'log', 'mp', 'bool'):
        if kind == 'bool':
            dts = [torch.bool]
        elif tier == 'thorough':
            dts = [torch.float64, torch.float32]
        else:
            dts = [torch.float64 if (idx % 2 == 0) else torch.float32]
        for dt in dts:
            for m in METHODS:
                runs.append(run_config(a, kind, m, dt, pat=a.get('pat')))
            # the same grammar presented differently: README-style label objects, reversed rule order, implicit ids
            if idx % 3 == 1:
                m = METHODS[idx % 3]
                runs.append(run_config(a, kind, m, dt, build_opts={'fresh_labels': True}))
                runs.append(run_config(a, kind, m, dt, build_opts={'fresh_labels': True, 'rule_order': list(reversed(range(len(a['rules']))))}))
            if idx % 4 == 3:
                runs.append(run_config(a, kind, METHODS[idx % 3], dt, build_opts={'history': 'rule_added_later'}))
                runs.append(run_config(a, kind, METHODS[(idx + 1) % 3], dt, build_opts={'history': 'weights_changed'}, pat=a.get('pat')))
            if idx % 3 == 2:
                # the start symbol declared last (the grammar object is created around another nonterminal)
                runs.append(run_config(a, kind, METHODS[idx % 2], dt, build_opts={'start_last': True}))
            if kind == 'real' and idx % 2 == 0 and not a.get('pat'):
                # the same grammar with a scalar factor 2^-40 on every rule of the start symbol: all its values are tiny
                # (below any stopping tolerance) and exactly 2^-40 times the original ones
                runs.append(run_config(a, kind, 'fixed-point', dt, build_opts={'tiny_start': True}))
            if idx % 3 == 0 and not a.get('pat'):
                # every factor's weights are a view at a non-zero storage offset of a larger table
                runs.append(run_config(a, kind, METHODS[(idx // 3) % 3], dt, build_opts={'offset_views': True}))
    a = {k: v for k, v in a.items() if k != 'pat'}
    return {'ag': a, 'runs': runs}


def singleton_case(a, idx):
    """fggs.utils.singleton_fgg(factor_graph): each terminal-only rule of the grammar taken as a factor graph of
    its own; the expected value is that of the one-rule grammar S' -> rhs (computed by the judge)."""
    import torch, fggs
    from fggs.utils import singleton_fgg
    cases = []
    for ri, r in enumerate(a['rules']):
        if any(not a['els'][e['lab']]['t'] for e in r['edges']):
            continue
        used = {e['lab'] for e in r['edges']}
        start = '<S>'
        a1 = {'nls': a['nls'], 'els': {start: {'t': False, 'type': [r['nodes'][j - 1] for j in r['ext']]}, **{t: a['els'][t] for t in used}},
              'elorder': [start] + sorted(used), 'start': start, 'rules': [dict(r, lhs=start)],
              'w': {t: a['w'][t] for t in used}, 'wmp': {t: a['wmp'][t] for t in used}}
        runs = []
        for kind in ('real', 'log', 'mp', 'bool'):
            dtype = torch.bool if kind == 'bool' else torch.float64
            run = {'sr': CARRIER[kind], 'tag': [kind, 'singleton_fgg'], 'out': 'ok', 'res': {}, 'partial': False}
            try:
                g, info = AG.build_fgg(a, kind, dtype)
                rhs = info['rules'][ri].rhs
                fg = fggs.FactorGraph()
                for v in rhs.nodes():
                    fg.add_node(v)
                for e in rhs.edges():
                    fg.add_edge(e)
                fg.ext = rhs.ext
                for n in a['nls']:
                    fg.add_domain(fggs.NodeLabel(n), g.domains[n])
                for t in used:
                    fg.add_factor(g.get_edge_label(t), g.factors[t])
                sg = singleton_fgg(fg)
                with warnings.catch_warnings():
                    warnings.simplefilter('ignore')
                    with torch.no_grad():
                        z = fggs.sum_product(sg, semiring=AG.semiring_for(kind, dtype))
                if sg.start.name != start:
                    run['out'] = 'raise:StartNameNotFresh'
                run['res'][start] = AG.project_tensor(z.to_dense(), kind, dtype)
            except Exception as e:  # noqa
                run['out'] = 'raise:' + type(e).__name__
                run['err'] = str(e)[:160]
            runs.append(run)
        cases.append({'ag': a1, 'runs': runs})
    return cases


def gen_tlc(work, consts, o: Outcome):
    cfg = ('INIT Init\nNEXT Next\nINVARIANT Stable\nINVARIANT IsNonRec\nINVARIANT Dump\nCHECK_DEADLOCK FALSE\nCONSTANTS\n' + consts)
    r = run_tlc(work, 'MC_Grammar', cfg, workers=1, heap='4g')
    o.add_tlc(r)
    return [g for g in r.printed if isinstance(g, dict) and 'rules' in g]


RANDOM_PROFILES = [
    dict(n_nts=(1, 3), max_rules=2, max_nodes=3, max_edges=3, weights='primes'),
    dict(n_nts=(2, 4), max_rules=2, max_nodes=3, max_edges=3, weights='primes', p_inf=0.08, p_zero=0.2),
    dict(n_nts=(1, 2), max_rules=3, max_nodes=4, max_edges=4, weights='small', dom_sizes=(1, 2), start_arity=(0, 1, 2, 2)),
    dict(n_nts=(2, 3), max_rules=2, max_nodes=2, max_edges=3, weights='primes', dom_sizes=(2, 3), p_norules=0.4, allow_unused_terms=True),
    # EMPTY domains: a node of an empty domain attached to no edge contributes the factor 0, tensors over it have no entries
    dict(n_nts=(1, 3), max_rules=2, max_nodes=3, max_edges=2, weights='small', dom_sizes=(0, 2, 2), n_nls=(2, 2), start_arity=(0, 0, 1)),
]


def cases_for(tier, seed, work, o: Outcome):
    ags = []
    if tier == 'quick':
        ags += gen_tlc(work / 'gen', 'MaxNodes = 2\nMaxEdges = 2\nMaxExt = 1\nDomT = 2\n', o)
        nrand = 160
    else:
        ags += gen_tlc(work / 'gen', 'MaxNodes = 2\nMaxEdges = 2\nMaxExt = 2\nDomT = 2\n', o)
        ags += gen_tlc(work / 'gen3', 'MaxNodes = 3\nMaxEdges = 2\nMaxExt = 1\nDomT = 2\n', o)
        ags += gen_tlc(work / 'gen4', 'MaxNodes = 2\nMaxEdges = 3\nMaxExt = 0\nDomT = 3\n', o)
        nrand = 3000
    o.extra['tlc_enumerated_grammars'] = len(ags)
    rng = rng_for(seed, 'c01')
    for i in range(nrand):
        ags.append(AG.gen_ag(rng, recursion='none', **RANDOM_PROFILES[i % len(RANDOM_PROFILES)]))
    # the same random grammars with weight tables that fit a sparsity pattern, given to the library AS patterned tensors
    npat = 0
    for a in list(ags[-nrand:]):
        if npat >= nrand // 3:
            break
        a2, pat = AG.patternise(rng, a)
        if pat and AG.nat_bound(a2) < 800000:        # (the integer carrier of the projection ends at 900 000)
            ags.append(dict(a2, pat=pat))
            npat += 1
    o.extra['grammars_with_patterned_weights'] = npat
    # pass-through rules: every node external, permuted, some touched by no edge
    npass = 60 if tier == 'quick' else 600
    for i in range(npass):
        a = AG.gen_passthrough(rng)
        if i % 2 == 1:
            a2, pat = AG.patternise(rng, a)
            a = dict(a2, pat=pat) if pat and AG.nat_bound(a2) < 800000 else a
        if AG.nat_bound(a) >= 800000:
            continue                                    # outside the integer carrier of the projection
        ags.append(a)
    o.extra['pass_through_grammars'] = npass
    # sparsely patterned rule results multiplied by the domain size of edge-less internal nodes
    nsp = 40 if tier == 'quick' else 400
    for i in range(nsp):
        ags.append(AG.gen_sparse_rule(rng))
    o.extra['sparse_rule_grammars'] = nsp
    # every value must lie on the integer carrier of the projection (below 900 000): a crude upper bound decides
    ags = [a for a in ags if AG.nat_bound(a) < 800000]
    return ags


def run(tier, seed):
    o = Outcome(PID, tier, seed)
    o.assumptions = ['weights are naturals / INF (Real, Log = ln-image) or integer log-weights (Viterbi): IEEE arithmetic is exact on them',
                     'Log results are compared through the interval of naturals within 1e-4 (float32) / 1e-9 (float64) relative of exp(result)',
                     'float rounding on non-integer weights is outside the model']
    with Scratch() as work:
        ags = cases_for(tier, seed, work, o)
        cases = pmap(_mk, [(a, tier, i) for i, a in enumerate(ags)])
        single = [c for i, a in enumerate(ags) if i % 4 == 0 for c in singleton_case(a, i)]
        o.extra['singleton_fgg_cases'] = len(single)
        cases += single
        verdicts, st, tr, _ = judge_batch(work / 'judge', 'Trace_SumProduct', cases, per_shard_min=20, heap='3g')
        o.states += st
        o.transitions += tr
        o.absorb_verdicts(cases, verdicts, load_findings())
        o.exhaustive = True
        o.extra['runs_judged'] = sum(len(c['runs']) for c in cases)
        o.extra['grammars_with_empty_domain'] = sum(1 for a in ags if any(v == 0 for v in a['nls'].values()))
        o.extra['grammars_with_inf_weight'] = sum(1 for a in ags if any(INF in w for w in a['w'].values()))
        o.extra['grammars_with_ruleless_nt'] = sum(1 for a in ags if any((not d['t']) and all(r['lhs'] != n for r in a['rules']) for n, d in a['els'].items()))
        o.sample({'ag': cases[-1]['ag'], 'run0': cases[-1]['runs'][0]})
    return o


def replay(path, seed):
    rec = json.loads(open(path).read())
    a = rec['case']['ag']
    o = Outcome(PID, 'thorough', seed)
    with Scratch() as work:
        case = make_case(a, 'thorough')
        verdicts, st, tr, _ = judge_batch(work, 'Trace_SumProduct', [case])
        o.states, o.transitions = st, tr
        o.absorb_verdicts([case], verdicts, load_findings())
        o.sample(case['runs'][0])
    return o
