"""C18 -- queries are pure: inputs are never mutated, results are reproducible.

R1    : MC_Session (TLC) enumerates EVERY history of queries up to the bound (each query before
        and after every other); R3: heap unchanged, equal queries give equal results.
drive : each history is executed on the SAME real objects (a catalogue of FGGs with dense and
        patterned weights, with and without requires_grad, recursive and not; HRG pairs); a deep
        snapshot (structure, storage bytes, sizes, strides, offsets, defaults, requires_grad, grad
        presence) of every argument is digested before and after each call, and the canonical
        form of every result is digested.  Plus clone-then-in-place programs on PatternedTensors
        and MultiTensors.
judge : Trace_Session (TLC): no query changes its arguments; every occurrence of a query gives the
        result it gives on a fresh copy.
"""
from __future__ import annotations
import hashlib, itertools, json, math, warnings
from ..common import *
from .. import ag as AG
from .. import pt as PT
from . import c05, c17

PID = 'C18'
QUERIES = ['viterbi_bad_start', 'fz_rule_nolabels', 'sp_real_fp', 'sp_log_newton', 'sp_real_linear', 'sp_bool', 'sp_viterbi', 'sps_real', 'viterbi',
           'fz_rule', 'fz_hrg_quickbb', 'fz_fgg_acb', 'conj_self', 'conj_other', 'fgg_json', 'hrg_json']


def digest(x):
    return hashlib.sha1(json.dumps(x, sort_keys=True, default=str).encode()).hexdigest()[:16]


def snap_tensor(p):
    """deep snapshot of a PatternedTensor (or Tensor)"""
    from fggs.indices import PatternedTensor
    if isinstance(p, PatternedTensor):
        rb = PT.readback(p)
        t = p.physical
        return {'vs': rb['vs'], 'ps': rb['ps'], 'd': repr(p.default), 'bytes': hashlib.sha1(t.detach().contiguous().numpy().tobytes()).hexdigest(),
                'size': list(t.shape), 'stride': list(t.stride()), 'off': t.storage_offset(), 'rg': bool(t.requires_grad), 'grad': t.grad is not None,
                'dtype': str(t.dtype)}
    return {'bytes': hashlib.sha1(p.detach().contiguous().numpy().tobytes()).hexdigest(), 'size': list(p.shape), 'stride': list(p.stride()),
            'off': p.storage_offset(), 'rg': bool(p.requires_grad), 'grad': p.grad is not None}


def snap_hrg(g):
    from fggs.domains import FiniteDomain
    ids = {}

    def nid(v):
        return v.id if isinstance(v.id, str) else ids.setdefault(v.id, f'#{len(ids)}')
    lab = lambda l: [l.name, [x.name for x in l.type], bool(l.is_terminal)]
    s = {'start': g.start.name if g.start is not None else None,
         'nls': [l.name for l in g.node_labels()], 'els': [lab(l) for l in g.edge_labels()],
         'rules': [[r.lhs.name, [[nid(v), v.label.name] for v in r.rhs.nodes()], [[nid(e), e.label.name, [nid(v) for v in e.nodes]] for e in r.rhs.edges()],
                    [nid(v) for v in r.rhs.ext], [l.name for l in r.rhs.node_labels()], [l.name for l in r.rhs.edge_labels()]] for r in g.all_rules()]}
    if hasattr(g, 'domains'):
        s['doms'] = {n: (d.values if isinstance(d, FiniteDomain) else ['range', d.size()]) for n, d in g.domains.items()}
        s['facs'] = {n: snap_tensor(f.weights) for n, f in g.factors.items()}
    return s


def snap_globals():
    """process-wide state a query has no business changing, observed through public calls only: the autograd mode, the
    default dtype, and the constants that FRESH semiring objects hand out"""
    import torch, fggs
    g = {'grad_enabled': bool(torch.is_grad_enabled()), 'default_dtype': str(torch.get_default_dtype()),
         'inference_mode': bool(torch.is_inference_mode_enabled())}
    for name, mk in (('real', lambda: fggs.RealSemiring(dtype=torch.float64)), ('real32', lambda: fggs.RealSemiring()),
                     ('log', lambda: fggs.LogSemiring(dtype=torch.float64)), ('viterbi', lambda: fggs.ViterbiSemiring(dtype=torch.float64)),
                     ('bool', lambda: fggs.BoolSemiring())):
        sr = mk()
        g['const_' + name] = [repr(sr.from_int(0).tolist()), repr(sr.from_int(1).tolist()), repr(sr.from_int(2).tolist())]
    return g


def canon_result(r):
    """canonical, id-normalised form of a query result"""
    import torch, fggs
    from fggs.indices import PatternedTensor
    from fggs.derivations import FGGDerivation
    if isinstance(r, PatternedTensor):
        # whether the result is connected to the autograd graph is part of what the caller gets
        return {'pt': [float(x).hex() if isinstance(x, float) else x for x in r.to_dense().reshape(-1).tolist()], 'shape': list(r.size()),
                'rg': bool(r.physical.requires_grad)}
    if isinstance(r, dict) and r and all(isinstance(k, fggs.EdgeLabel) for k in r):
        return {k.name: canon_result(v) for k, v in sorted(r.items(), key=lambda kv: kv[0].name)}
    if isinstance(r, FGGDerivation):
        def ser(d):
            ids = {}
            return {'lhs': d.rule.lhs.name, 'rule': [e.label.name for e in d.rule.rhs.edges()],
                    'asst': sorted([[v.label.name, str(x)] for v, x in d.asst.items()], key=str),
                    'children': [ser(c) for _, c in sorted(d.children.items(), key=lambda kv: str(kv[0].label.name) + str([n.label.name for n in kv[0].nodes]))]}
        return ser(r)
    if isinstance(r, fggs.HRG):
        return snap_hrg(r)
    if isinstance(r, list) and r and isinstance(r[0], fggs.HRGRule):
        ids = {}
        nid = lambda v: v.id if isinstance(v.id, str) else ids.setdefault(v.id, f'#{len(ids)}')
        return [[x.lhs.name, [l.name for l in x.lhs.type], [[nid(v), v.label.name] for v in x.rhs.nodes()],
                 [[nid(e), e.label.name, [nid(v) for v in e.nodes]] for e in x.rhs.edges()], [nid(v) for v in x.rhs.ext]] for x in r]
    return r


def AG_nonrecursive(a):
    nts = AG.nts_of(a)
    dep = {n: {e['lab'] for r in a['rules'] if r['lhs'] == n for e in r['edges'] if not a['els'][e['lab']]['t']} for n in nts}
    reach = {n: set(dep[n]) for n in nts}
    for _ in nts:
        for n in nts:
            for m in list(reach[n]):
                reach[n] |= dep.get(m, set())
    return all(n not in reach[n] for n in nts)


class World:
    """the objects of one session"""
    def __init__(self, a, flavour, cg):
        import torch
        self.a = a
        hooks = None
        if flavour == 'structzero':
            # one-hot vectors over a domain of size 2 held as patterns with DISJOINT supports: their product is a
            # structural zero (einsum's unification fails), not a computed one
            from fggs.indices import PatternedTensor, SumAxis, unitAxis
            hooks = {'f': lambda ten: PatternedTensor(ten[0].clone(), (), (SumAxis(0, unitAxis, 1),), 0.),
                     'g': lambda ten: PatternedTensor(ten[1].clone(), (), (SumAxis(1, unitAxis, 0),), 0.)}
        if flavour == 'patterned':
            from fggs.indices import PatternedTensor, PhysicalAxis
            hooks = {}
            for t in AG.terms_of(a):
                sh = AG.shape_of(a, t)
                if len(sh) == 1 and sh[0] >= 2:
                    hooks[t] = lambda ten: PatternedTensor(ten).unsqueeze(0).expand(1, ten.shape[0])[0]
        # (dense worlds: finite domains whose values are tuples -- values only need to be hashable)
        self.fgg, self.info = AG.build_fgg(a, 'real', torch.float64, patterned=hooks, finite_domains=('tuple' if flavour == 'dense' else False))
        self.lfgg, _ = AG.build_fgg(a, 'log', torch.float64)
        self.bfgg, _ = AG.build_fgg(a, 'bool')
        self.vfgg, _ = AG.build_fgg(a, 'mp', torch.float64)
        if not AG_nonrecursive(a):
            # keep the recursive real / log sum-products finite: scale the natural weights down
            for f in self.fgg.factors.values():
                f.weights = (f.weights * 0.125) if flavour == 'structzero' else f.weights.to_dense() * 0.125
            for f in self.lfgg.factors.values():
                f.weights = f.weights.to_dense() + math.log(0.125)
        if flavour == 'grad':
            for f in self.fgg.factors.values():
                f.weights.requires_grad_()
            for f in self.lfgg.factors.values():
                f.weights.requires_grad_()
            for k, f in enumerate(self.vfgg.factors.values()):
                if k % 2 == 0:
                    f.weights = f.weights.to_dense().clone()     # a tensor that owns its storage (not a view), as a user's parameter would
                f.weights.requires_grad_()
        self.flavour = flavour
        # copies taken before any query: a query must leave every object == to the copy taken before it
        self.fgg0, self.vfgg0, self.bfgg0 = self.fgg.copy(), self.vfgg.copy(), self.bfgg.copy()
        self.h1, cache = c17.build(cg[0])
        self.h2, _ = c17.build(cg[1])
        self.labels = set(self.fgg.edge_labels())

    def snapshot(self):
        return {'fgg': snap_hrg(self.fgg), 'lfgg': snap_hrg(self.lfgg), 'bfgg': snap_hrg(self.bfgg), 'vfgg': snap_hrg(self.vfgg),
                'h1': snap_hrg(self.h1), 'h2': snap_hrg(self.h2), 'globals': snap_globals(),
                'eq_copy_taken_before': {'fgg': self._eq(self.fgg, self.fgg0), 'vfgg': self._eq(self.vfgg, self.vfgg0), 'bfgg': self._eq(self.bfgg, self.bfgg0)},
                'domain_probes': self._probe_domains()}

    @staticmethod
    def _eq(a, b):
        try:
            return [bool(a == b), bool(b == a)]
        except Exception as e:  # noqa
            return ['raise:' + type(e).__name__]

    def _probe_domains(self):
        """contains / numberize / denumberize of every value each domain had when it was built"""
        out = {}
        for n, d in self.fgg.domains.items():
            vals0 = list(self.fgg0.domains[n].values) if hasattr(self.fgg0.domains[n], 'values') else list(range(d.size()))
            try:
                out[n] = [[bool(d.contains(v)), int(d.numberize(v)), repr(d.denumberize(i))] for i, v in enumerate(vals0)]
            except Exception as e:  # noqa
                out[n] = 'raise:' + type(e).__name__
        return out


    def run(self, q):
        import torch, fggs
        from fggs import factorize as FZ, formats
        a = self.a
        with warnings.catch_warnings():
            warnings.simplefilter('ignore')
            if q == 'sp_real_fp':
                return fggs.sum_product(self.fgg, method='fixed-point', semiring=fggs.RealSemiring(dtype=torch.float64))
            if q == 'sp_log_newton':
                return fggs.sum_product(self.lfgg, method='newton', semiring=fggs.LogSemiring(dtype=torch.float64))
            if q == 'sp_real_linear':
                return fggs.sum_product(self.fgg, method='linear', semiring=fggs.RealSemiring(dtype=torch.float64))
            if q == 'sp_bool':
                return fggs.sum_product(self.bfgg, semiring=fggs.BoolSemiring())
            if q == 'sp_viterbi':
                return fggs.sum_product(self.vfgg, semiring=fggs.ViterbiSemiring(dtype=torch.float64))
            if q == 'sps_real':
                return fggs.sum_products(self.fgg, semiring=fggs.RealSemiring(dtype=torch.float64))
            if q == 'viterbi':
                sh = AG.shape_of(a, a['start'])
                if self.flavour == 'grad':
                    # the weights require gradients; viterbi itself is not differentiable and is run without recording
                    with torch.no_grad():
                        return fggs.viterbi(self.vfgg, tuple(0 for _ in sh), semiring=fggs.ViterbiSemiring(dtype=torch.float64))
                return fggs.viterbi(self.vfgg, tuple(0 for _ in sh), semiring=fggs.ViterbiSemiring(dtype=torch.float64))
            if q == 'viterbi_bad_start':
                # a query that FAILS (a start assignment of the right length but outside the domain, or of the wrong
                # length for a nullary start symbol): it must fail the same way every time and leave nothing behind
                sh = AG.shape_of(a, a['start'])
                if sh:
                    return fggs.viterbi(self.vfgg, tuple(s + 5 for s in sh), semiring=fggs.ViterbiSemiring(dtype=torch.float64))
                # nullary start symbol: no iteration budget at all (fails on a recursive grammar, succeeds otherwise)
                return fggs.viterbi(self.vfgg, (), semiring=fggs.ViterbiSemiring(dtype=torch.float64), kmax=0)
            if q == 'fz_rule_nolabels':
                # the rule with the most nodes (most likely to be split), labels argument omitted
                r = max(self.fgg.all_rules(), key=lambda r: len(r.rhs.nodes()))
                return FZ.factorize_rule(r, method='min_fill')
            if q == 'fz_rule':
                return FZ.factorize_rule(self.fgg.all_rules()[0], method='min_fill', labels=set(self.fgg.edge_labels()))
            if q == 'fz_hrg_quickbb':
                return FZ.factorize_hrg(self.fgg, method='quickbb')
            if q == 'fz_fgg_acb':
                return FZ.factorize_fgg(self.fgg, method='acb')
            if q == 'conj_self':
                return fggs.conjoin_hrgs(self.h1, self.h1)
            if q == 'conj_other':
                return fggs.conjoin_hrgs(self.h1, self.h2)
            if q == 'fgg_json':
                return json.loads(json.dumps(formats.fgg_to_json(self.fgg)))
            if q == 'hrg_json':
                return formats.hrg_to_json(self.h1)
        raise ValueError(q)


def first_results(mk, world):
    """every query once on a FRESH copy of the objects: the reference result of the query -- and itself a judged history
    of length one (the process has run nothing of the library before the first of them, so whatever a query leaves behind
    in process-wide state is seen here first)"""
    import torch
    first, firstout, cases = {}, {}, []
    for q in QUERIES:
        w = mk()
        pre = w.snapshot()
        try:
            first[q] = digest(canon_result(w.run(q)))
            firstout[q] = 'ok'
        except Exception as e:  # noqa
            first[q] = ''
            firstout[q] = 'raise:' + type(e).__name__
        post = w.snapshot()
        cases.append({'world': world, 'hist': [q], 'events': [{'q': q, 'out': firstout[q], 'pre': digest(pre), 'post': digest(post), 'res': first[q],
                                                             'what': what_differs(pre, post)}],
                      'first': {q: first[q]}, 'firstout': {q: firstout[q]}})
        torch.set_grad_enabled(True)        # the harness starts every session in the default autograd mode
    return first, firstout, cases


def what_differs(a, b):
    for k in a:
        if a[k] != b[k]:
            if isinstance(a[k], dict):
                for kk in a[k]:
                    if a[k][kk] != b[k].get(kk):
                        return f'{k}.{kk}'
            return k
    return ''


def hmm_like(rng):
    """a textbook shape: S -> start(v) X(v);  X(v) -> stop(v) | trans(v,w) emit(w,u) X(w)   (4-node chain rule)"""
    n = rng.choice([2, 3])
    els = {'S': {'t': False, 'type': []}, 'X': {'t': False, 'type': ['T']}, 'start': {'t': True, 'type': ['T']}, 'stop': {'t': True, 'type': ['T']},
           'trans': {'t': True, 'type': ['T', 'T']}, 'emit': {'t': True, 'type': ['T', 'U']}, 'obs': {'t': True, 'type': ['U']}}
    rules = [{'lhs': 'S', 'nodes': ['T'], 'edges': [{'lab': 'start', 'att': [1]}, {'lab': 'X', 'att': [1]}], 'ext': []},
             {'lhs': 'X', 'nodes': ['T'], 'edges': [{'lab': 'stop', 'att': [1]}], 'ext': [1]},
             {'lhs': 'X', 'nodes': ['T', 'T', 'U', 'T'], 'edges': [{'lab': 'trans', 'att': [1, 2]}, {'lab': 'emit', 'att': [2, 3]}, {'lab': 'obs', 'att': [3]},
                                                               {'lab': 'trans', 'att': [2, 4]}, {'lab': 'X', 'att': [4]}], 'ext': [1]}]
    nls = {'T': n, 'U': 2}
    sh = lambda t: AG.numel([nls[x] for x in els[t]['type']])
    w = {t: [rng.choice([1, 1, 2]) for _ in range(sh(t))] for t in els if els[t]['t']}
    wmp = {t: [rng.choice([-2, -1, -1, 0]) for _ in range(sh(t))] for t in els if els[t]['t']}
    return {'nls': nls, 'els': els, 'elorder': list(els), 'start': 'S', 'rules': rules, 'w': w, 'wmp': wmp}


def struct_zero_ag():
    """S -> X;  X -> f(v) g(v) | Y a;  Y -> X b | c   with f, g one-hot on different values: the nullary X, in a recursive
    component, is a STRUCTURAL zero in the first iteration and becomes non-zero through its recursive rule"""
    els = {'S': {'t': False, 'type': []}, 'X': {'t': False, 'type': []}, 'Y': {'t': False, 'type': []},
           'f': {'t': True, 'type': ['T']}, 'g': {'t': True, 'type': ['T']}, 'a': {'t': True, 'type': []}, 'b': {'t': True, 'type': []},
           'c': {'t': True, 'type': []}}
    E = lambda lab, *att: {'lab': lab, 'att': list(att)}
    rules = [{'lhs': 'S', 'nodes': [], 'edges': [E('X')], 'ext': []},
             {'lhs': 'X', 'nodes': ['T'], 'edges': [E('f', 1), E('g', 1)], 'ext': []},
             {'lhs': 'X', 'nodes': [], 'edges': [E('Y'), E('a')], 'ext': []},
             {'lhs': 'Y', 'nodes': [], 'edges': [E('X'), E('b')], 'ext': []},
             {'lhs': 'Y', 'nodes': [], 'edges': [E('c')], 'ext': []}]
    w = {'f': [3, 0], 'g': [0, 5], 'a': [2], 'b': [1], 'c': [3]}
    wmp = {'f': [0, NINF], 'g': [NINF, 0], 'a': [-1], 'b': [-1], 'c': [-2]}
    return {'nls': {'T': 2}, 'els': els, 'elorder': list(els), 'start': 'S', 'rules': rules, 'w': w, 'wmp': wmp}


def drive(args):
    widx, hists, seed = args
    rng = rng_for(seed, f'c18w{widx}')
    flavour = ['dense', 'grad', 'patterned'][widx % 3]
    if widx == 6:
        a, flavour = struct_zero_ag(), 'structzero'
    elif widx in (1, 4):
        a = hmm_like(rng)
    else:
        a = AG.gen_ag(rng, n_nts=(1, 3), max_rules=2, max_nodes=4, max_edges=3, recursion=('linear' if widx % 2 else 'none'), weights='small',
                      dom_sizes=(2, 2, 3), p_zero=0.1, mp_range=(-3, 0), p_norules=(0.5 if widx % 4 == 0 else 0.0), value_cap=1 << 30,
                      allow_unused_terms=(widx % 2 == 0), n_terms=(3, 5) if widx % 2 == 0 else (1, 4), n_nls=(2, 2) if widx % 2 == 0 else (1, 2))
    if widx % 3 == 0 and 'N0' not in a['els']:
        # a declared nonterminal without rules that nothing uses (its sum-product is zero): legal, and a query must not
        # leave a trace of having looked it up
        a = dict(a, els=dict(a['els'], N0={'t': False, 'type': []}), elorder=list(a['elorder']) + ['N0'])
    if widx % 2:
        # keep recursive real-valued sum-products finite: scale the natural weights into (0, 1/4]
        a = dict(a)
    cg = c17.gen_pair(rng, 'plain')
    mk = lambda: World(a, flavour, cg)
    import torch
    first, firstout, cases = first_results(mk, [widx, flavour])
    for h in hists:
        torch.set_grad_enabled(True)
        w = mk()
        events = []
        for q in h:
            pre = w.snapshot()
            out, res = 'ok', ''
            try:
                res = digest(canon_result(w.run(q)))
            except Exception as e:  # noqa
                out = 'raise:' + type(e).__name__
            post = w.snapshot()
            events.append({'q': q, 'out': out, 'pre': digest(pre), 'post': digest(post), 'res': res, 'what': what_differs(pre, post)})
        cases.append({'world': [widx, flavour], 'hist': h, 'events': events, 'first': first, 'firstout': firstout})
    return cases


def clone_programs(seed, n):
    """in-place operations on a clone never change the source (PatternedTensor, MultiTensor)"""
    import torch
    from fggs.multi import MultiTensor
    from fggs.semirings import RealSemiring
    from . import c06
    rng = rng_for(seed, 'c18clone')
    cases = []
    inplace = [('neg_', lambda c, o: c.neg_()), ('abs_', lambda c, o: c.abs_()), ('relu_', lambda c, o: c.relu_()),
               ('log_', lambda c, o: c.log_()), ('log1p_', lambda c, o: c.log1p_()), ('nan_to_num_', lambda c, o: c.nan_to_num_(nan=1., posinf=2., neginf=3.)),
               ('imul', lambda c, o: c.__imul__(3.0)), ('itruediv', lambda c, o: c.__itruediv__(2.0)), ('imul_pt', lambda c, o: c.__imul__(o)),
               ('copy_', lambda c, o: c.copy_(o)), ('fill', lambda c, o: c.physical.zero_()), ('requires_grad_', lambda c, o: c.requires_grad_(False))]
    for i in range(n):
        types = c06.typed_shapes(rng, 1)[0]
        st = PT.gen_pattern(rng, types, default=rng.choice([0.0, 1.0, -math.inf]), scheme='distinct')
        st2 = PT.gen_pattern(rng, types, default=0.0, scheme='small', start_id=300)
        layout = rng.choice(['contig', 'transposed'])
        src, other = PT.build(st, torch.float64, layout), PT.build(st2, torch.float64)
        events = []
        for name, op in inplace:
            c = src.clone()
            pre = snap_tensor(src)
            out = 'ok'
            try:
                op(c, other)
            except Exception as e:  # noqa
                out = 'ok'      # the operation itself is C06's matter; here only the source counts
            post = snap_tensor(src)
            events.append({'q': 'clone.' + name, 'out': 'ok', 'pre': digest(pre), 'post': digest(post), 'res': '', 'what': what_differs(pre, post)})
            if pre != post:
                src = PT.build(st, torch.float64, layout)
        fo = {e['q']: 'ok' for e in events}
        cases.append({'world': [i, 'clone'], 'hist': [e['q'] for e in events], 'events': events, 'first': {q: '' for q in fo}, 'firstout': fo})
        events = []
        # MultiTensor
        sr = RealSemiring(dtype=torch.float64)
        shapes = {'x': torch.Size(PT.vshape(st))}
        M, N = MultiTensor(shapes, sr), MultiTensor(shapes, sr)
        M['x'] = PT.build(st, torch.float64, layout)
        N['x'] = PT.build(st2, torch.float64)
        for name, op in [('copy_', lambda c: c.copy_(N)), ('iadd', lambda c: c.__iadd__(N)), ('isub', lambda c: c.__isub__(N)),
                         ('maximum_', lambda c: c.maximum_(N)), ('poke', lambda c: c['x'].physical.zero_())]:
            c = M.clone()
            pre = {'M': snap_tensor(M['x']), 'N': snap_tensor(N['x'])}
            try:
                op(c)
            except Exception:
                pass
            post = {'M': snap_tensor(M['x']), 'N': snap_tensor(N['x'])}
            events.append({'q': 'multiclone.' + name, 'out': 'ok', 'pre': digest(pre), 'post': digest(post), 'res': '', 'what': what_differs(pre, post)})
        fo = {e['q']: 'ok' for e in events}
        cases.append({'world': [i, 'multiclone'], 'hist': [e['q'] for e in events], 'events': events, 'first': {q: '' for q in fo}, 'firstout': fo})
    return cases


def run(tier, seed):
    o = Outcome(PID, tier, seed)
    o.assumptions = ['snapshots and results are compared through SHA-1 digests of their canonical JSON form (implicit ids normalised by order of appearance)',
                     'the documented labels argument of factorize_rule is passed as a fresh copy each time']
    maxlen, nworlds = (2, 7) if tier == 'quick' else (3, 13)
    with Scratch() as work:
        cfg = ('INIT Init\nNEXT Next\nINVARIANT Pure\nINVARIANT Reproducible\nINVARIANT Dump\nCHECK_DEADLOCK FALSE\nCONSTANTS\n'
               f'MaxLen = {maxlen}\nQueries = {{{", ".join(json.dumps(q) for q in QUERIES)}}}\n')
        r = run_tlc(work / 'gen', 'MC_Session', cfg, workers=1, heap='4g')
        o.add_tlc(r)
        hists = [t['hist'] for t in r.printed if isinstance(t, dict) and 'hist' in t]
        o.extra['histories_enumerated_by_tlc'] = len(hists)
        o.extra['bounds'] = {'history_length': maxlen, 'query_alphabet': len(QUERIES), 'worlds': nworlds}
        o.exhaustive = True
        jobs = [(w, hists[w::nworlds] if tier == 'thorough' else hists, seed) for w in range(nworlds)]
        if tier == 'quick':
            jobs = [(w, hists[w % 2::2], seed) for w in range(nworlds)]
        cases = [c for cs in pmap(drive, jobs, procs=min(12, len(jobs)), chunksize=1) for c in cs]
        cases += clone_programs(seed, 60 if tier == 'quick' else 600)
        verdicts, st, tr, _ = judge_batch(work / 'judge', 'Trace_Session', cases, per_shard_min=150)
        o.states += st
        o.transitions += tr
        for v in verdicts.values():
            if v.get('v') == 'HarnessSnapshotInconsistent':
                raise MachineryFailure('snapshot after one call differs from snapshot before the next')
        o.absorb_verdicts(cases, verdicts, load_findings())
        o.extra['query_executions'] = sum(len(c['events']) for c in cases)
        o.extra['queries_raising_consistently'] = sorted({q for c in cases for q, v in c['firstout'].items() if v != 'ok'})
        o.sample({'hist': cases[0]['hist'], 'events': cases[0]['events']})
    return o


def replay(path, seed):
    return run('quick', seed)
