"""C06, part `axis_algebra` -- the algebra of axis terms behind every patterned-tensor operation.

gen   : TLC (MC_AxisAlg) enumerates, for every typed shape of a small catalogue, EVERY pair of axis lists of that
        shape (shared or disjoint physical axes); seeded typed patterns (harness/pt.py) beyond the catalogue.
drive : the real fggs.indices Axis objects: unify over the pairs of a list with one substitution (as einsum / equal /
        where use it), antiunify with one anti-substitution (as expansion / stack use it), stride, index, numel,
        zero, fv, freshen, alpha.  Everything is read back as term structures, physical axes named by identity.
judge : Trace_AxisAlg (TLC): unify's substitution parametrises exactly the solutions of es = fs, once each, and
        unify fails only when there is none; the generalisation instantiates to both operands; stride is the affine
        form of the index map; index inverts it.
"""
from __future__ import annotations
import itertools, json, warnings
from ..common import *
from .. import pt as PT


# index types for the enumerator (keys number the types up to structural equality)
def _ty(t, keys):
    k = keys.setdefault(repr(t), len(keys) + 1)
    if t[0] == 'n':
        return {'k': 'n', 'n': t[1], 'key': k}
    if t[0] == 'x':
        return {'k': 'x', 'fs': [_ty(f, keys) for f in t[1]], 'key': k}
    if t[0] == 'u':
        return {'k': 'u', 'fs': [_ty(f, keys) for f in t[1]], 'key': k}
    return {'k': 's', 'b': t[1], 't': _ty(t[2], keys), 'a': t[3], 'key': k}


N = lambda n: ('n', n)
CATALOGUE_QUICK = [
    [('x', [N(2), N(3)])],                                   # 2x3 against its factorisations
    [('x', [N(2), N(2)]), N(2)],                             # shared factor at two depths
    [('s', 1, N(2), 0), N(2)],                               # the second diagonal of a 3x2 matrix
    [('u', [N(2), N(1)]), ('u', [N(2), N(1)])],              # disjoint union: patterns may be disjoint
    [('x', [N(2), ('s', 0, N(1), 1)])],                      # one-hot inside a product
    [N(1), ('x', [N(1), N(2)])],                             # unit axes
    [N(0), N(2)],                                            # an empty index set
    [('x', [('u', [N(1), N(1)]), N(2)])],                    # a disjoint union INSIDE a product: failure found at factor level
]
CATALOGUE_THOROUGH = CATALOGUE_QUICK + [
    [('x', [N(2), N(2), N(2)])],                             # 8 = 2x2x2 = 4x2 = 2x4
    [('x', [('x', [N(2), N(2)]), N(2)]), ('x', [N(2), N(2)])],
    [('u', [('x', [N(2), N(2)]), N(2)])],
    [('s', 1, ('x', [N(2), N(2)]), 1)],
    [N(2), N(2), N(2)],
    [('x', [N(3), N(2)]), N(3), N(2)],
    [('u', [N(1), N(1), N(2)]), N(2)],
]


def _gen_tlc(work, catalogue, shared, o: Outcome, cap):
    keys = {}
    shapes = [[_ty(t, keys) for t in sh] for sh in catalogue]
    cfg = (f'INIT Init\nNEXT Next\nCONSTANTS K = 2\nShared = {"TRUE" if shared else "FALSE"}\n'
           'INVARIANT TermsHaveTheSizeOfTheirType\nINVARIANT TypedListsArePatterns\nINVARIANT SolutionsAreTheCommonSupport\n'
           'INVARIANT ModelUnifierIsMostGeneral\nINVARIANT ModelGeneralisationInstantiates\n'
           'INVARIANT Dump\nCHECK_DEADLOCK FALSE\n')
    w = work / ('gen_sh' if shared else 'gen_dj')
    prepare_workdir(w)
    (w / 'shapes.json').write_text(json.dumps(shapes))
    r = run_tlc(w, 'MC_AxisAlg', cfg, workers=4, heap='4g')
    o.add_tlc(r)
    pairs = [p for p in r.printed if isinstance(p, dict) and 'es' in p]
    o.extra['axis_pairs_enumerated_' + ('shared' if shared else 'disjoint')] = len(pairs)
    if len(pairs) > cap:                       # quick tier: a seeded subset of the exhaustive enumeration
        rng = rng_for(o.seed, 'c06ax-sub')
        pairs = rng.sample(pairs, cap)
    return pairs


# ------------------------------------------------------------------ real objects
class Namer:
    """physical axes named by object identity; ids of the generated terms are kept, new axes get ids from 5000"""
    def __init__(self):
        self.obj, self.ids, self.next = {}, {}, 5000

    def make(self, e):
        from fggs.indices import PhysicalAxis, SumAxis, productAxis, unitAxis
        if e['k'] == 'P':
            if e['id'] not in self.obj:
                a = PhysicalAxis(e['n'])
                self.obj[e['id']] = a
                self.ids[id(a)] = e['id']
            return self.obj[e['id']]
        if e['k'] == 'X':
            return productAxis(self.make(f) for f in e['fs']) if e['fs'] else unitAxis
        return SumAxis(e['b'], self.make(e['t']), e['a'])

    def name(self, a):
        if id(a) not in self.ids:
            self.ids[id(a)] = self.next
            self.obj[self.next] = a          # keep alive: identity must stay unique
            self.next += 1
        return self.ids[id(a)]

    def read(self, e):
        from fggs.indices import PhysicalAxis, ProductAxis, SumAxis
        if isinstance(e, PhysicalAxis):
            return {'k': 'P', 'id': self.name(e), 'n': e._numel}
        if isinstance(e, ProductAxis):
            return {'k': 'X', 'fs': [self.read(f) for f in e.factors]}
        if isinstance(e, SumAxis):
            return {'k': 'S', 'b': e.before, 't': self.read(e.term), 'a': e.after}
        raise TypeError(type(e))


def _typed_guard(wl, what):
    if any('index type mismatch' in str(w.message) for w in wl):
        raise MachineryFailure(f'type-mismatch warning on a well-typed input in {what}: the typing model of the generator is wrong')


def drive_pair(p):
    """unify and antiunify on one enumerated pair of axis lists; stride / index / basics on its terms"""
    from fggs.indices import PhysicalAxis
    out = []
    ges, gfs = p['es'], p['fs']
    base = {'ges': ges, 'gfs': gfs}
    # ---- unify (fresh objects per call: unify mutates only the substitution, but keep the cases independent)
    nm = Namer()
    c = {'kind': 'unify', 'out': 'ok', 'tag': ['unify', p.get('src', 'tlc')], **base, 'es': ges, 'fs': gfs, 'xs': [], 'sg': [], 'ok': False}
    try:
        es = [nm.make(e) for e in ges]
        fs = [nm.make(e) for e in gfs]
        c['es'], c['fs'] = [nm.read(e) for e in es], [nm.read(e) for e in fs]
        fa = {}
        for e in c['es'] + c['fs']:
            PT.free_axes(e, fa)
        subst = {}
        with warnings.catch_warnings(record=True) as wl:
            warnings.simplefilter('always')
            ok = all(e.unify(f, subst) for e, f in zip(es, fs))
        _typed_guard(wl, 'unify')
        c['ok'] = bool(ok)
        c['xs'] = [{'id': i, 'n': n} for i, n in sorted(fa.items())]
        c['sg'] = [nm.read(nm.obj[i].clone(subst)) if ok else {'k': 'P', 'id': i, 'n': n} for i, n in sorted(fa.items())]
    except MachineryFailure:
        raise
    except Exception as e:  # noqa
        c['out'] = 'raise:' + type(e).__name__
        c['err'] = str(e)[:160]
    out.append(c)
    # ---- antiunify
    nm = Namer()
    c = {'kind': 'antiunify', 'out': 'ok', 'tag': ['antiunify', p.get('src', 'tlc')], **base, 'es': ges, 'fs': gfs, 'gs': [], 'an': []}
    try:
        es = [nm.make(e) for e in ges]
        fs = [nm.make(e) for e in gfs]
        c['es'], c['fs'] = [nm.read(e) for e in es], [nm.read(e) for e in fs]
        anti = ({}, {})
        with warnings.catch_warnings(record=True) as wl:
            warnings.simplefilter('always')
            gs = [e.antiunify(f, anti) for e, f in zip(es, fs)]
        _typed_guard(wl, 'antiunify')
        c['gs'] = [nm.read(g) for g in gs]
        c['an'] = [{'id': nm.name(k), 'n': k._numel, 'l': nm.read(l), 'r': nm.read(r)} for k, (l, r) in anti[1].items()]
    except MachineryFailure:
        raise
    except Exception as e:  # noqa
        c['out'] = 'raise:' + type(e).__name__
        c['err'] = str(e)[:160]
    out.append(c)
    return out


def drive_term(ge):
    """stride / index / numel / zero / fv / freshen / alpha on one term"""
    out = []
    nm = Namer()
    try:
        e = nm.make(ge)
        rb = nm.read(e)
    except Exception:
        return out
    c = {'kind': 'stride', 'out': 'ok', 'tag': ['stride'], 'e': rb, 'off': 0, 'st': []}
    try:
        off, st = e.stride({})
        c['off'], c['st'] = int(off), [{'id': nm.name(k), 'c': int(v)} for k, v in st.items()]
    except Exception as ex:  # noqa
        c['out'] = 'raise:' + type(ex).__name__
    out.append(c)
    c = {'kind': 'index', 'out': 'ok', 'tag': ['index'], 'e': rb, 'ix': []}
    try:
        for v in range(e.numel()):
            ph = {}
            ok = e.index(ph, v)
            c['ix'].append({'ok': bool(ok), 'ph': [{'id': nm.name(k), 'i': int(i)} for k, i in ph.items()]})
    except Exception as ex:  # noqa
        c['out'] = 'raise:' + type(ex).__name__
    out.append(c)
    c = {'kind': 'basics', 'out': 'ok', 'tag': ['basics'], 'e': rb, 'numel': -1, 'zero': False, 'fv': [], 'fr': rb, 'rn': [], 'alpha': False}
    try:
        c['numel'], c['zero'] = int(e.numel()), bool(e.zero())
        c['fv'] = [nm.name(k) for k in e.fv({})]
        rn = {}
        fr = e.freshen(rn)
        c['fr'] = nm.read(fr)
        c['rn'] = [{'a': nm.name(a), 'b': nm.name(b)} for a, b in rn.items()]
        c['alpha'] = bool(e.alpha(fr, rn))
    except Exception as ex:  # noqa
        c['out'] = 'raise:' + type(ex).__name__
    out.append(c)
    return out


def _no_unit_axes(e):
    if e['k'] == 'P':
        return {'k': 'X', 'fs': []} if e['n'] == 1 else e
    if e['k'] == 'X':
        return {'k': 'X', 'fs': [_no_unit_axes(f) for f in e['fs']]}
    return {'k': 'S', 'b': e['b'], 't': _no_unit_axes(e['t']), 'a': e['a']}


def seeded_pairs(seed, n):
    """typed patterns from the seeded generator (deeper nestings than the catalogue), as pairs of axis lists"""
    out = []
    for i in range(n):
        rng = rng_for(seed, f'c06ax-{i}')
        types = [PT.gen_type(rng, cap=6, depth=2) for _ in range(rng.randint(1, 3))]
        tot = 1
        for t in types:
            tot *= max(1, PT.numel_type(t))
        if tot > 48:
            continue
        shared = i % 3 == 0
        # shared: both lists draw their physical axes from ONE typed pool (a tensor against a view of itself);
        # otherwise from two pools with disjoint ids.  (Two pools with the same ids would give one axis two types.)
        pa = PT.Pool(rng, 0.35, 1)
        pb = pa if shared else PT.Pool(rng, 0.35, 300)
        a = {'vs': [PT.gen_axis(rng, ty, pa) for ty in types]}
        b = {'vs': [PT.gen_axis(rng, ty, pb) for ty in types]}
        # a PatternedTensor never holds a physical axis of size 1 (__post_init__ rewrites it to the unit axis):
        # the axis algebra is used on terms normalised that way
        out.append({'es': [_no_unit_axes(e) for e in a['vs']], 'fs': [_no_unit_axes(e) for e in b['vs']], 'src': 'seeded'})
    return out


def run_part(o: Outcome, tier, seed, work):
    quick = tier == 'quick'
    cat = CATALOGUE_QUICK if quick else CATALOGUE_THOROUGH
    pairs = _gen_tlc(work, cat, False, o, 400 if quick else 100000) + _gen_tlc(work, cat, True, o, 300 if quick else 100000)
    pairs += seeded_pairs(seed, 120 if quick else 2500)
    res = pmap(drive_pair, pairs, chunksize=8)
    cases = [c for cs in res for c in cs]
    terms = {}
    for p in pairs:
        for ge in p['es'] + p['fs']:
            terms.setdefault(json.dumps(ge, sort_keys=True), ge)
    o.extra['axis_terms_distinct'] = len(terms)
    for ge in terms.values():
        cases.extend(drive_term(ge))
    verdicts, st, tr, _ = judge_batch(work / 'judge_ax', 'Trace_AxisAlg', cases, per_shard_min=300, heap='3g')
    o.states += st
    o.transitions += tr
    o.absorb_verdicts(cases, verdicts, load_findings(), part='axis_algebra')
    kinds = {}
    for c in cases:
        kinds[c['kind']] = kinds.get(c['kind'], 0) + 1
    o.extra['axis_algebra_cases'] = kinds
    o.extra['unify_model_drift'] = sum(1 for i, v in verdicts.items() if v.get('drift', 'none') != 'none' and cases[i - 1]['kind'] == 'unify')
    o.extra['antiunify_model_drift'] = sum(1 for i, v in verdicts.items() if v.get('drift', 'none') != 'none' and cases[i - 1]['kind'] == 'antiunify')
    o.extra['axis_algebra_unify_failures_observed'] = sum(1 for c in cases if c['kind'] == 'unify' and c['out'] == 'ok' and not c['ok'])
    return cases
