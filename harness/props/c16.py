"""C16 -- graphs and grammars stay well formed under any call sequence.

R1  : TLC explores the Graphs machine (MC_Graph / MC_HRG) and dumps EVERY transition
      (ACTION_CONSTRAINT DumpT, VIEW hides `last`); -simulate for deep behaviours.
drive: each transition is replayed on real fggs objects along the BFS path to its
      pre-state; the heap is projected through public accessors before and after.
R2  : Trace_Graphs / Trace_HRG (TLC) judge every observed call: well-formedness preserved,
      failure atomicity, copy equality + independence, == an equivalence that distinguishes.
R3  : the invariants of MC_* show the (repaired) design satisfies the clauses.
"""
from __future__ import annotations
import json
from ..common import *
from ..graphsdrv import Session

PID = 'C16'


def tlc_dump(work, module, consts, o: Outcome, simulate=None, timeout=3600):
    inv = 'ModelWF' if module == 'MC_Graph' else 'ModelWFUnlessSharedMutation'
    if module == 'MC_Graph' and 'Interp' not in consts:
        consts = consts + 'Interp = FALSE\n'
    cfg = ('INIT Init\nNEXT Next\nVIEW View\nCONSTRAINT Bound\nACTION_CONSTRAINT DumpT\n'
           f'INVARIANT {inv}\nPROPERTY ModelFailureAtomic\nCHECK_DEADLOCK FALSE\nCONSTANTS\n' + consts)
    args = []
    if simulate:
        cfg = cfg.replace('PROPERTY ModelFailureAtomic\n', '')
        args = ['-simulate', f'num={simulate[0]}', '-depth', str(simulate[1]), '-seed', str(simulate[2])]
    r = run_tlc(work, module, cfg, workers=1, args=args, heap='6g', timeout=timeout)
    o.add_tlc(r)
    return [t for t in r.printed if isinstance(t, dict) and 'act' in t]


def replay_transitions(trans, make_session, o: Outcome, chained=False):
    """trans: dump lines in BFS order (or chained simulate behaviours).  Returns (states, events)."""
    key = lambda st: json.dumps(st, sort_keys=True)
    paths = {}
    states, sidx, events = [], {}, []

    def intern(p):
        k = key(p)
        if k not in sidx:
            states.append(p)
            sidx[k] = len(states)
        return sidx[k]

    if chained:
        trans = [t for beh in taken_behaviours(trans) for t in beh]
    cur_path = None
    for t in trans:
        pre_k = key(t['pre'])
        call = t['act']['call']
        if chained:
            if t['lvl'] == 1 or cur_path is None:
                cur_path = []
            path = cur_path
        else:
            if t['lvl'] == 1 and pre_k not in paths:
                paths[pre_k] = []
            path = paths.get(pre_k)
            if path is None:
                raise MachineryFailure('transition dump not in BFS order: unseen pre-state')
        S = make_session()
        for c in path:
            S.apply(c)
        pre = S.pheap()
        out = S.apply(call)
        post = S.pheap()
        ev = {'pre': intern(pre), 'post': intern(post), 'call': call, 'out': out, 'eq': S.eq_matrix(), 'ty': S.types(),
              'sharers': sorted(S.sharers), 'path': path + [call], 'model_out': t['act']['out']}
        events.append(ev)
        if chained:
            cur_path = path + [call]
        else:
            post_k = key(t['post'])
            if post_k not in paths:
                paths[post_k] = path + [call]
    return states, events


def judge(work, module, states, events, o: Outcome, part, machine='graph'):
    cases = [{k: e[k] for k in ('pre', 'post', 'call', 'out', 'eq', 'sharers') + (('nodrift',) if 'nodrift' in e else ()) + (('ty',) if 'ty' in e else ())} for e in events]
    verdicts, st, tr, _ = judge_batch(work, module, cases, per_shard_min=2000, shared={'states.json': states},
                                      heap='4g')
    o.states += st
    o.transitions += tr
    full = [{'machine': machine, 'path': e['path'], 'out': e['out'], 'pre': states[e['pre'] - 1],
             'post': states[e['post'] - 1]} for e in events]
    o.absorb_verdicts(full, verdicts, load_findings(), part=part)
    drift = sum(1 for v in verdicts.values() if v.get('drift'))
    o.extra['model_drift_' + part] = drift
    o.extra['distinct_observed_heaps_' + part] = len(states)
    o.extra['raising_calls_' + part] = sum(1 for e in events if e['out'] == 'raise')
    ops = {}
    for e in events:
        k = e['call']['op'] + ':' + e['out']
        ops[k] = ops.get(k, 0) + 1
    o.extra['calls_by_op_and_outcome_' + part] = ops
    if events:
        o.sample({'part': part, **full[len(full) // 2]})
    return verdicts


HRG_C = 'Depth = {d}\nKind = "hrg"\nWithInterp = FALSE\n'
FGG_C = 'Depth = {d}\nKind = "fgg"\nWithInterp = TRUE\n'


def run(tier, seed):
    o = Outcome(PID, tier, seed)
    o.assumptions = ['Graph universe: node values x:A x:B y:A (+implicit i1:B), 4-6 edge labels incl. same-name clashes, edge ids e f',
                     'HRG universe: labels S X a incl. terminal/nonterminal and type clashes, 5 right-hand sides + the shared mutable g1',
                     'exhaustive transition replay to the call depth in coverage.bounds, -simulate beyond']
    with Scratch() as work:
        if tier == 'quick':
            plan = [('graph_d3', 'MC_Graph', 'Depth = 3\nRich = TRUE\n', None, 'graph'),
                    ('fgraph_d5', 'MC_Graph', 'Depth = 5\nRich = FALSE\nInterp = TRUE\n', None, 'fgraph'),
                    ('hrg_d3', 'MC_HRG', HRG_C.format(d=3), None, 'hrg'),
                    ('fgg_d3', 'MC_HRG', FGG_C.format(d=3), None, 'hrg')]
            sim = [('graph_sim', 'MC_Graph', 'Depth = 10\nRich = TRUE\n', (150, 10, seed + 1), 'graph'),
                   ('hrg_sim', 'MC_HRG', HRG_C.format(d=10), (150, 10, seed + 2), 'hrg')]
        else:
            plan = [('graph_d3', 'MC_Graph', 'Depth = 3\nRich = TRUE\n', None, 'graph'),
                    ('graph_d4', 'MC_Graph', 'Depth = 4\nRich = FALSE\n', None, 'graph'),
                    ('fgraph_d6', 'MC_Graph', 'Depth = 6\nRich = FALSE\nInterp = TRUE\n', None, 'fgraph'),
                    ('hrg_d4', 'MC_HRG', HRG_C.format(d=4), None, 'hrg'),
                    ('fgg_d4', 'MC_HRG', FGG_C.format(d=4), None, 'hrg')]
            sim = [('graph_sim', 'MC_Graph', 'Depth = 14\nRich = TRUE\n', (3000, 14, seed + 1), 'graph'),
                   ('hrg_sim', 'MC_HRG', HRG_C.format(d=14), (3000, 14, seed + 2), 'hrg'),
                   ('fgg_sim', 'MC_HRG', FGG_C.format(d=12), (1500, 12, seed + 3), 'hrg')]
        o.extra['bounds'] = {p[0]: p[2].replace('\n', ' ') for p in plan + sim}
        for name, module, consts, _, machine in plan:
            trans = tlc_dump(work / name, module, consts, o)
            states, events = replay_transitions(trans, lambda: Session(machine), o)
            judge(work / (name + '_j'), 'Trace_Graphs', states, events, o, name, machine)
        o.exhaustive = True
        states, events = repo_test_traces(work, o)
        judge(work / 'repo_tests_j', 'Trace_Graphs', states, events, o, 'repo_tests', 'graph')
        for name, module, consts, simargs, machine in sim:
            trans = tlc_dump(work / name, module, consts, o, simulate=simargs)
            states, events = replay_transitions(trans, lambda: Session(machine), o, chained=True)
            judge(work / (name + '_j'), 'Trace_Graphs', states, events, o, name, machine)
    return o


REPO_TESTS = ['test/test_fggs.py', 'test/test_derivations.py', 'test/test_conjunction.py', 'test/test_factorize.py',
              'test/test_formats.py', 'test/test_utils.py', 'test/test_readme.py', 'test/test_viterbi.py']


def repo_test_traces(work, o: Outcome):
    """the repository's own tests as a trace source: every outermost mutator call they make is recorded by
    harness/tracer.py (pytest plugin, no repository change) and judged with the same clauses"""
    import subprocess, os
    out = work / 'trace_events.json'
    env = dict(os.environ, FGGS_VERIF='1', VERIF_TRACE_OUT=str(out), PYTHONPATH=f'{REPO}:{VERIF}')
    p = subprocess.run(['/venv/bin/python', '-m', 'pytest', '-q', '-p', 'no:cacheprovider', '-p', 'harness.tracer', *REPO_TESTS],
                       cwd=str(REPO), env=env, capture_output=True, text=True, timeout=1200)
    if not out.exists():
        raise MachineryFailure('tracer produced no events: ' + p.stdout[-300:] + p.stderr[-300:])
    evs = json.loads(out.read_text())
    key = lambda st: json.dumps(st, sort_keys=True)
    states, sidx, events = [], {}, []

    def intern(st):
        k = key(st)
        if k not in sidx:
            states.append(st)
            sidx[k] = len(states)
        return sidx[k]
    for e in evs:
        if 'err' in e['pre']['g1'] or 'err' in e['post']['g1']:
            continue
        events.append({'pre': intern(e['pre']), 'post': intern(e['post']), 'call': {'op': e['op'], 'h': 'g1'}, 'out': e['out'],
                       'eq': e['eq'], 'sharers': [], 'nodrift': True, 'path': [{'op': e['op'], 'h': 'g1', 'test': e['test']}], 'model_out': '?'})
    o.extra['repo_test_events'] = len(events)
    o.extra['repo_tests_traced'] = REPO_TESTS
    return states, events


def replay(path, seed):
    rec = json.loads(open(path).read())
    calls = rec['case']['path']
    o = Outcome(PID, 'quick', seed)
    S = Session(rec['case'].get('machine', 'graph'))
    for c in calls[:-1]:
        S.apply(c)
    pre = S.pheap()
    out = S.apply(calls[-1])
    post = S.pheap()
    states = [pre, post]
    ev = {'pre': 1, 'post': 2, 'call': calls[-1], 'out': out, 'eq': S.eq_matrix(), 'sharers': sorted(S.sharers), 'path': calls, 'model_out': '?'}
    with Scratch() as work:
        judge(work, 'Trace_Graphs', states, [ev], o, 'replay', rec['case'].get('machine', 'graph'))
    return o
