"""C05 -- factorization preserves the grammar's meaning and never widens a rule.

gen   : seeded abstract grammars (C01 generator; isolated nodes, several components, nullary and
        repeated-attachment edges, externals anywhere), label environments with X_1-style
        collisions, and rule graphs on 7-8 nodes on which min_fill is sub-optimal (found by
        search, certified by TLC's treewidth DP at judging time).
drive : factorize_rule / factorize_hrg / factorize_fgg x {min_fill, quickbb, acb}; sum_products
        of the factorized FGG.
judge : Trace_Factorize (TLC): fresh-nonterminal discipline, inlining reproduces every rule up to
        isomorphism, no wider rule, exact methods reach treewidth+1; Trace_SumProduct: same Z.
"""
from __future__ import annotations
import json, warnings
from ..common import *
from .. import ag as AG
from . import c01

PID = 'C05'
METHODS = ('min_fill', 'quickbb', 'acb')


class Ids:
    def __init__(self):
        self.t = {}

    def __call__(self, v):
        if v.id not in self.t:
            self.t[v.id] = len(self.t) + 1
        return self.t[v.id]


def plabel(l):
    return {'name': l.name, 'type': [x.name for x in l.type], 't': bool(l.is_terminal)}


def prule(r, ids):
    return {'lhs': plabel(r.lhs),
            'nodes': [{'id': ids(v), 'l': v.label.name} for v in r.rhs.nodes()],
            'edges': [{'lab': plabel(e.label), 'att': [ids(v) for v in e.nodes]} for e in r.rhs.edges()],
            'ext': [ids(v) for v in r.rhs.ext]}


def drive_grammar(a, method, entry):
    import fggs, torch
    from fggs import factorize as FZ
    case = {'entry': entry, 'method': method, 'out': 'ok', 'names': [], 'orig': [], 'new': [],
            'start_before': '', 'start_after': '', 'terms_before': [], 'terms_after': [], 'same_interp': True}
    zrun = None
    try:
        g, info = AG.build_fgg(a, 'real', torch.float64, with_interp=(entry == 'fgg'), implicit_ids=(entry == 'hrg'))
        ids = Ids()
        case['names'] = [l.name for l in g.edge_labels()]
        case['orig'] = [prule(r, ids) for r in g.all_rules()]
        case['start_before'] = g.start.name
        case['terms_before'] = sorted(l.name for l in g.terminals())
        if entry == 'fgg':
            gnew = FZ.factorize_fgg(g, method=method)
            case['same_interp'] = (set(gnew.domains) == set(g.domains) and all(gnew.domains[k] == g.domains[k] for k in g.domains)
                                   and set(gnew.factors) == set(g.factors) and all(gnew.factors[k] == g.factors[k] for k in g.factors))
        else:
            gnew = FZ.factorize_hrg(g, method=method)
        case['new'] = [prule(r, ids) for r in gnew.all_rules()]
        case['start_after'] = gnew.start.name
        case['terms_after'] = sorted(l.name for l in gnew.terminals())
        if entry == 'fgg':
            zrun = {'sr': 'nat', 'tag': ['factorized', method], 'out': 'ok', 'res': {}, 'partial': True}
            try:
                with warnings.catch_warnings():
                    warnings.simplefilter('ignore')
                    with torch.no_grad():
                        sp = fggs.sum_products(gnew, semiring=fggs.RealSemiring(dtype=torch.float64))
                onts = set(AG.nts_of(a))
                for el, t in sp.items():
                    if el.is_nonterminal and el.name in onts:
                        zrun['res'][el.name] = AG.project_tensor(t.to_dense(), 'real', torch.float64)
            except Exception as e:  # noqa
                zrun['out'] = 'raise:' + type(e).__name__
    except Exception as e:  # noqa
        case['out'] = 'raise:' + type(e).__name__
        case['err'] = str(e)[:200]
    return case, zrun


def drive_rules(a, method, labels_mode):
    """factorize_rule on every rule of the grammar; labels: None | the grammar's label set."""
    import fggs
    from fggs import factorize as FZ
    out = []
    g, info = AG.build_fgg(a, with_interp=False)
    for ri, rule in sorted(info['rules'].items()):
        ids = Ids()
        case = {'entry': 'rule', 'method': method, 'out': 'ok', 'orig': [prule(rule, ids)], 'new': [],
                'start_before': '', 'start_after': '', 'terms_before': [], 'terms_after': [], 'same_interp': True}
        labels = None if labels_mode == 'none' else set(g.edge_labels())
        names = set(l.name for l in (labels or ())) | {rule.lhs.name} | {e.label.name for e in rule.rhs.edges()}
        case['names'] = sorted(names)
        try:
            new = FZ.factorize_rule(rule, method=method, labels=labels)
            case['new'] = [prule(r, ids) for r in new]
        except Exception as e:  # noqa
            case['out'] = 'raise:' + type(e).__name__
            case['err'] = str(e)[:200]
        out.append(case)
    return out


def collision_grammars(rng, n):
    """grammars whose terminals are literally named like the fresh nonterminals would be"""
    ags = []
    for _ in range(n):
        a = AG.gen_ag(rng, n_nts=(1, 2), max_rules=2, max_nodes=4, max_edges=4, recursion='none', weights='small', dom_sizes=(1, 2))
        ren = {}
        ts = AG.terms_of(a)
        for t, new in zip(ts, ['S_1', 'X_1', 'S_2']):
            ren[t] = new
        R = lambda n: ren.get(n, n)
        a2 = {'nls': a['nls'], 'els': {R(k): v for k, v in a['els'].items()}, 'elorder': [R(k) for k in a['elorder']],
              'start': a['start'], 'rules': [dict(r, edges=[dict(e, lab=R(e['lab'])) for e in r['edges']]) for r in a['rules']],
              'w': {R(k): v for k, v in a['w'].items()}, 'wmp': {R(k): v for k, v in a['wmp'].items()}}
        ags.append(a2)
    return ags


def collision_split_grammars(rng, n):
    """a rule for X that is certainly split (a chain of 4-5 nodes) in a grammar that already has a label named like the
    fresh nonterminal would be (X_1: a terminal or a nonterminal with its own rule), mentioned only in OTHER rules, in
    every rule order -- the fresh names must avoid the labels of the whole grammar, not of the rules seen so far"""
    ags = []
    for k in range(n):
        d = rng.choice([1, 2])
        xar = rng.choice([0, 1])
        clash_t = rng.random() < 0.5
        car = rng.choice([1, 2])
        els = {'S': {'t': False, 'type': []}, 'X': {'t': False, 'type': ['T'] * xar}, 'c': {'t': True, 'type': ['T', 'T']},
               'X_1': {'t': clash_t, 'type': ['T'] * car}}
        m = rng.choice([4, 5])
        chain = [{'lab': 'c', 'att': [j, j + 1]} for j in range(1, m)]
        rng.shuffle(chain)
        rules = [{'lhs': 'X', 'nodes': ['T'] * m, 'edges': chain, 'ext': [rng.randint(1, m)] * xar},
                 {'lhs': 'S', 'nodes': ['T', 'T'], 'edges': [{'lab': 'X', 'att': [1] * xar}, {'lab': 'X_1', 'att': [1, 2][:car]}], 'ext': []}]
        if not clash_t:
            els['f'] = {'t': True, 'type': ['T'] * car}
            rules.append({'lhs': 'X_1', 'nodes': ['T'] * car, 'edges': [{'lab': 'f', 'att': list(range(1, car + 1))}], 'ext': list(range(1, car + 1))})
        order = list(range(len(rules)))
        if k % 2 == 0:
            rng.shuffle(order)           # X first in about half of them; the other half keeps X first
        rules = [rules[j] for j in order]
        tn = [t for t, v in els.items() if v['t']]
        elorder = list(els)
        rng.shuffle(elorder)
        w = {t: [rng.randint(1, 3) for _ in range(d ** len(els[t]['type']))] for t in tn}
        ags.append({'nls': {'T': d}, 'els': els, 'elorder': elorder, 'start': 'S', 'rules': rules, 'w': w,
                    'wmp': {t: [0] * len(v) for t, v in w.items()}})
    return ags


def witness_grammars(rng, want, tries=4000):
    """single-rule grammars whose primal graph makes min_fill sub-optimal (candidates by search
    with the library's own bounds; TLC recomputes the treewidth when judging)."""
    from fggs import factorize as FZ
    found = []
    for _ in range(tries):
        if len(found) >= want:
            break
        n = rng.choice([7, 7, 8])
        dens = rng.choice([0.35, 0.45, 0.55])
        edges = [(i, j) for i in range(1, n + 1) for j in range(i + 1, n + 1) if rng.random() < dens]
        gr = {v: set() for v in range(1, n + 1)}
        for u, v in edges:
            gr[u].add(v)
            gr[v].add(u)
        try:
            ub, _ = FZ.min_fill({k: set(s) for k, s in gr.items()})
            lb = FZ.minor_min_width({k: set(s) for k, s in gr.items()})
            if lb >= ub:
                continue
            ex, _ = FZ.quickbb({k: set(s) for k, s in gr.items()})
        except Exception:
            continue
        if ex < ub:
            a = {'nls': {'T': 1}, 'els': {'S': {'t': False, 'type': []}, 'c': {'t': True, 'type': ['T', 'T']}},
                 'elorder': ['S', 'c'], 'start': 'S',
                 'rules': [{'lhs': 'S', 'nodes': ['T'] * n, 'edges': [{'lab': 'c', 'att': [u, v]} for u, v in edges], 'ext': []}],
                 'w': {'c': [2]}, 'wmp': {'c': [1]}}
            found.append(a)
    return found


def _drive(args):
    a, i, tier = args
    cases, zc = [], []
    entries = ('fgg', 'hrg') if tier == 'thorough' or i % 2 == 0 else ('fgg',)
    for m in METHODS:
        zruns = []
        for entry in entries:
            c, z = drive_grammar(a, m, entry)
            cases.append(c)
            if z:
                zruns.append(z)
        if zruns:
            zc.append({'ag': a, 'runs': zruns})
        if tier == 'thorough' or i % 3 == 0:
            cases.extend(drive_rules(a, m, 'none' if i % 2 else 'all'))
    return cases, zc


def run(tier, seed):
    o = Outcome(PID, tier, seed)
    o.assumptions = ['rule graphs up to 5 nodes (seeded) plus 7-8 node witnesses; isomorphism search is exhaustive up to 6 nodes, identity-on-ids beyond',
                     'Z equality judged on the nat carrier (Real semiring, float64)']
    rng = rng_for(seed, 'c05')
    n = 70 if tier == 'quick' else 700
    ags = []
    profiles = [dict(n_nts=(1, 3), max_rules=2, max_nodes=5, max_edges=4, weights='small', dom_sizes=(1, 2)),
                dict(n_nts=(1, 2), max_rules=2, max_nodes=4, max_edges=5, weights='small', dom_sizes=(2,), start_arity=(0, 1, 2), max_arity=2),
                dict(n_nts=(2, 3), max_rules=1, max_nodes=5, max_edges=3, weights='small', dom_sizes=(1, 2), p_norules=0.0)]
    for i in range(n):
        ags.append(AG.gen_ag(rng, recursion='none', value_cap=1 << 20, **profiles[i % 3]))
    ags += collision_grammars(rng, 10 if tier == 'quick' else 60)
    ags += collision_split_grammars(rng, 12 if tier == 'quick' else 80)
    wit = witness_grammars(rng, 3 if tier == 'quick' else 12)
    o.extra['min_fill_suboptimal_witnesses'] = len(wit)
    ags += wit
    with Scratch() as work:
        res = pmap(_drive, [(a, i, tier) for i, a in enumerate(ags)])
        cases = [c for cs, _ in res for c in cs]
        zcases = [z for _, zs in res for z in zs]
        verdicts, st, tr, _ = judge_batch(work / 'judge', 'Trace_Factorize', cases, per_shard_min=40, heap='3g')
        o.states += st
        o.transitions += tr
        o.absorb_verdicts(cases, verdicts, load_findings(), part='structure')
        zv, st, tr, _ = judge_batch(work / 'zjudge', 'Trace_SumProduct', zcases, per_shard_min=20, heap='3g')
        o.states += st
        o.transitions += tr
        o.absorb_verdicts(zcases, zv, load_findings(), part='sum_product')
        ent = {}
        for c in cases:
            k = c['entry'] + ':' + c['method']
            ent[k] = ent.get(k, 0) + 1
        o.extra['cases_by_entry_and_method'] = ent
        o.extra['rules_split_into_several'] = sum(1 for c in cases if len(c['new']) > len(c['orig']))
        big = max(cases, key=lambda c: len(c['new']))
        o.sample({'entry': big['entry'], 'method': big['method'], 'orig': big['orig'][:1], 'new': big['new'][:3]})
    return o


def replay(path, seed):
    return run('quick', seed)
