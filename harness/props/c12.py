"""C12 -- results do not depend on how the grammar is written down.

R1    : MC_Builder (TLC): the construction of a target grammar as a state machine; -simulate
        yields random construction SCHEDULES (orders of add_node/add_edge/add_rule/add_domain/
        add_factor/add_edge_label calls), exhaustively confluent (R3: Confluent).
drive : each schedule is replayed on the real API on a PRESENTATION of the grammar (rules, nodes,
        edges re-ordered; node/edge labels renamed; domain values permuted together with factor
        axes; explicit or implicit ids), then sum_products (4 semirings, 3 methods).
judge : Trace_Present (TLC): observed = meaning of the presented grammar, and (model-level)
        meaning(presented) = renamed/permuted meaning(original).
"""
from __future__ import annotations
import math
import copy, json, warnings
from ..common import *
from .. import ag as AG
from . import c01

PID = 'C12'


def present(rng, a):
    """A random presentation of `a`: returns (agp, ren, perm)."""
    nlren = {n: n if rng.random() < 0.5 else n + n.lower() for n in a['nls']}
    ren = {n: n if rng.random() < 0.5 else ('q' + n) for n in a['els']}
    perm = {}
    for n, size in a['nls'].items():
        p = list(range(size))
        rng.shuffle(p)
        perm[n] = p
    agp = {'nls': {nlren[n]: s for n, s in a['nls'].items()},
           'els': {ren[n]: {'t': d['t'], 'type': [nlren[x] for x in d['type']]} for n, d in a['els'].items()},
           'elorder': [ren[n] for n in a['elorder']], 'start': ren[a['start']], 'rules': [], 'w': {}, 'wmp': {}}
    rng.shuffle(agp['elorder'])
    order = list(range(len(a['rules'])))
    rng.shuffle(order)
    for ri in order:
        r = a['rules'][ri]
        n = len(r['nodes'])
        npos = list(range(n))
        rng.shuffle(npos)               # old node index j (0-based) -> new position npos[j]
        nodes = [None] * n
        for j in range(n):
            nodes[npos[j]] = nlren[r['nodes'][j]]
        edges = [{'lab': ren[e['lab']], 'att': [npos[x - 1] + 1 for x in e['att']]} for e in r['edges']]
        rng.shuffle(edges)
        agp['rules'].append({'lhs': ren[r['lhs']], 'nodes': nodes, 'edges': edges, 'ext': [npos[x - 1] + 1 for x in r['ext']]})
    for t in AG.terms_of(a):
        shape = AG.shape_of(a, t)
        typ = a['els'][t]['type']
        for tab in ('w', 'wmp'):
            old = a[tab][t]
            new = [None] * len(old)
            for flat in range(len(old)):
                idx, rem = [], flat
                for s in reversed(shape):
                    idx.append(rem % s)
                    rem //= s
                idx.reverse()
                nidx = [perm[typ[i]][idx[i]] for i in range(len(idx))]
                nf = 0
                for s, x in zip(shape, nidx):
                    nf = nf * s + x
                new[nf] = old[flat]
            agp[tab][ren[t]] = new
    # perm is given in terms of the ORIGINAL node label names; ren maps nonterminal/terminal names
    return agp, ren, perm


def schedules(work, agp, n, depth, seed, o: Outcome):
    cfg = 'INIT Init\nNEXT Next\nVIEW View\nACTION_CONSTRAINT DumpT\nINVARIANT Confluent\nCHECK_DEADLOCK FALSE\n'
    prepare_workdir(work)
    (work / 'target.json').write_text(json.dumps({k: agp[k] for k in ('nls', 'els', 'rules')}))
    r = run_tlc(work, 'MC_Builder', cfg, workers=1, args=['-simulate', f'num={n}', '-depth', str(depth), '-seed', str(seed)], heap='2g')
    o.add_tlc(r)
    trans = [t for t in r.printed if isinstance(t, dict) and 'act' in t]
    key = lambda st: json.dumps([sorted(json.dumps(x) for x in st[0]), st[1]])
    out = []
    for beh in taken_behaviours(trans, key=key):
        if any(t['fin'] for t in beh):
            out.append([t['act'] for t in beh if t['act'][0] != 'handover'])
    return out


def replay_schedule(agp, sched, kind, dtype, implicit):
    import fggs, torch
    from fggs import FGG, Graph, Node, Edge, EdgeLabel, NodeLabel, HRGRule
    from fggs.domains import RangeDomain
    from fggs.factors import FiniteFactor
    nl = {n: NodeLabel(n) for n in agp['nls']}
    el = {n: EdgeLabel(n, [nl[x] for x in d['type']], is_terminal=d['t'], is_nonterminal=not d['t']) for n, d in agp['els'].items()}
    g = FGG(el[agp['start']])
    rhs, nodes, added = {}, {}, set()
    edges_made, rules_made = {}, {}

    def node(r, j):
        if (r, j) not in nodes:
            lab = nl[agp['rules'][r - 1]['nodes'][j - 1]]
            # implicit: 1 = implicit ids, 0 = explicit ids unique in the grammar, 2 = explicit ids LOCAL to the rule
            # (n1, n2, .. / e1, e2, .. re-used by every rule: two copies of a production are then equal objects)
            nodes[(r, j)] = Node(lab) if implicit == 1 else Node(lab, id=(f'n{j}' if implicit == 2 else f'v{r}_{j}'))
        return nodes[(r, j)]
    table = agp['wmp'] if kind == 'mp' else agp['w']
    for it in sched:
        k = it[0]
        if k == 'node':
            rhs.setdefault(it[1], Graph()).add_node(node(it[1], it[2]))
        elif k == 'edge':
            e = agp['rules'][it[1] - 1]['edges'][it[2] - 1]
            ed = Edge(el[e['lab']], [node(it[1], a) for a in e['att']], id=None if implicit == 1 else (f'e{it[2]}' if implicit == 2 else f'e{it[1]}_{it[2]}'))
            edges_made[(it[1], it[2])] = ed
            rhs.setdefault(it[1], Graph()).add_edge(ed)
        elif k == 'rule':
            r = agp['rules'][it[1] - 1]
            gr = rhs.setdefault(it[1], Graph())
            for j in range(1, len(r['nodes']) + 1):
                if not gr.has_node_id(node(it[1], j).id) and j not in r['ext']:
                    gr.add_node(node(it[1], j))     # (cannot happen: the machine requires every node)
            gr.ext = [node(it[1], a) for a in r['ext']]
            rules_made[it[1]] = HRGRule(el[r['lhs']], gr)
            g.add_rule(rules_made[it[1]])
        elif k == 'dom':
            g.add_domain(nl[it[1]], RangeDomain(agp['nls'][it[1]]))
        elif k == 'fac':
            t = it[1]
            shape = AG.shape_of(agp, t)
            vals = [AG._to_float(x, kind) for x in table[t]]
            ten = torch.tensor(vals, dtype=torch.bool if kind == 'bool' else dtype).reshape(shape)
            g.add_factor(el[t], FiniteFactor([g.domains[x] for x in agp['els'][t]['type']], ten))
        elif k == 'lab':
            g.add_edge_label(el[it[1]])
    info = {'rules': {ri: rules_made[ri + 1] for ri in range(len(agp['rules']))},
            'nodes': {ri: [node(ri + 1, j + 1) for j in range(len(agp['rules'][ri]['nodes']))] for ri in range(len(agp['rules']))},
            'edges': {ri: [edges_made[(ri + 1, k + 1)] for k in range(len(agp['rules'][ri]['edges']))] for ri in range(len(agp['rules']))}}
    g._verif_info = info
    return g


def observe(agp, sched, idx):
    import torch, fggs
    runs = []
    for kind in ('real', 'log', 'mp', 'bool'):
        dtype = torch.bool if kind == 'bool' else (torch.float64 if idx % 2 == 0 else torch.float32)
        method = c01.METHODS[(idx // 3) % 3]
        run = {'sr': c01.CARRIER[kind], 'tag': [kind, method, str(dtype).replace('torch.', ''), ['explicit', 'implicit', 'explicit_local'][idx % 3]],
               'out': 'ok', 'res': {}, 'hasgrad': False, 'grads': {}}
        try:
            g = replay_schedule(agp, sched, kind, dtype, implicit=idx % 3)
            with warnings.catch_warnings():
                warnings.simplefilter('ignore')
                with torch.no_grad():
                    sp = fggs.sum_products(g, method=method, semiring=AG.semiring_for(kind, dtype))
            for l, t in sp.items():
                if l.is_nonterminal:
                    run['res'][l.name] = AG.project_tensor(t.to_dense(), kind, dtype)
        except Exception as e:  # noqa
            run['out'] = 'raise:' + type(e).__name__
            run['err'] = str(e)[:200]
        runs.append(run)
    # gradients under this presentation (Real semiring, cotangent all ones); derivatives at infinite weights are outside
    # the property (C03 presupposes a finite Z) and outside the dual-number carrier of the specification
    if any(x == INF for ws in agp['w'].values() for x in ws):
        return runs
    run = {'sr': 'nat', 'tag': ['real', 'grad', 'float64', ['explicit', 'implicit', 'explicit_local'][idx % 3]], 'out': 'ok', 'res': {}, 'hasgrad': True, 'grads': {}}
    try:
        g = replay_schedule(agp, sched, 'real', torch.float64, implicit=idx % 3)
        for f in g.factors.values():
            f.weights.requires_grad_()
        with warnings.catch_warnings():
            warnings.simplefilter('ignore')
            sp = fggs.sum_products(g, method=c01.METHODS[(idx // 3) % 3], semiring=AG.semiring_for("real", torch.float64))
            z = sp[g.start].to_dense()
            if z.requires_grad:
                z.sum().backward()
        for l, t in sp.items():
            if l.is_nonterminal:
                run['res'][l.name] = AG.project_tensor(t.to_dense().detach(), 'real', torch.float64)
        for t in AG.terms_of(agp):
            gr = g.factors[t].weights.grad
            n = len(agp['w'][t])
            run['grads'][t] = [[ABSENT, ABSENT]] * n if gr is None else [[snap_int(float(x))] * 2 for x in gr.to_dense().reshape(-1).tolist()]
    except Exception as e:  # noqa
        run['out'] = 'raise:' + type(e).__name__
        run['err'] = str(e)[:200]
    runs.append(run)
    return runs


def observe_viterbi(agp, sched, idx):
    """viterbi on the presented grammar, every start assignment (judged by Trace_Viterbi)"""
    import torch, fggs, itertools
    from . import c04
    cases = []
    if any(x == INF for w in agp['wmp'].values() for x in w):
        return cases
    sh = AG.shape_of(agp, agp['start'])
    for sa in itertools.product(*[range(s) for s in sh]):
        c = {'ag': {k: agp[k] for k in ('nls', 'els', 'start', 'rules', 'wmp')}, 'sa': list(sa), 'out': 'ok', 'd': [{'rule': 1, 'parent': 0, 'via': 0, 'path': []}],
             'assts': [[]], 'vit': [0, 0], 'dout': 'ok', 'dw': [0, 0], 'tag': ['presented', ['explicit', 'implicit', 'explicit_local'][idx % 3]]}
        try:
            g = replay_schedule(agp, sched, 'mp', torch.float64, implicit=idx % 3)
            sr = fggs.ViterbiSemiring(dtype=torch.float64)
            with warnings.catch_warnings():
                warnings.simplefilter('ignore')
                with torch.no_grad():
                    z = fggs.sum_product(g, semiring=sr).to_dense()
                c['vit'] = AG.project_value(z[sa].item() if sa else z.item(), 'mp', torch.float64)
                deriv = fggs.viterbi(g, tuple(sa), semiring=sr)
            c['d'], c['assts'] = c04.serialise(deriv, g._verif_info, agp)
            try:
                graph, asst = deriv.derive()
                w = 0.0
                for e in graph.edges():
                    if e.label.is_terminal:
                        w += float(graph.factors[e.label.name].apply([asst[n] for n in e.nodes]))
                c['dw'] = AG.project_value(w, 'mp', torch.float64)
            except Exception as e:  # noqa
                c['dout'] = 'raise:' + type(e).__name__
        except Exception as e:  # noqa
            c['out'] = 'raise:' + type(e).__name__
            c['err'] = str(e)[:200]
        cases.append(c)
    return cases


def _one(args):
    a, agp, ren, perm, sched, idx = args
    return {'ag': {k: a[k] for k in ('nls', 'els', 'start', 'rules', 'w', 'wmp')},
            'agp': {k: agp[k] for k in ('nls', 'els', 'start', 'rules', 'w', 'wmp')},
            'ren': ren, 'perm': perm, 'sched': sched, 'runs': observe(agp, sched, idx), 'vit': observe_viterbi(agp, sched, idx)}


def drive_recursive(args):
    """a RECURSIVE grid grammar (least fixed point proved by TLC) written down in several ways: every way must give the
    one least fixed point -- rule order, edge order inside a rule and node numbering are presentation only"""
    import torch
    from . import c02
    seed, i, k = args
    rng = rng_for(seed, f'c12rec-{i}')
    a = AG.gen_fx_recursive(rng, linear=(i % 3 == 0), max_q=0.9)
    out = []
    for pi in range(k):
        b = AG.permute_presentation(rng, a) if pi else a
        runs = []
        for kind in ('real', 'log'):
            for method in ('fixed-point', 'newton'):
                proj = (lambda t: [c02.interval_fx(float(x)) for x in t.reshape(-1).tolist()]) if kind == 'real' else \
                       (lambda t: [c02.interval_fx(math.exp(float(x))) if float(x) < 30 else [INF, INF] for x in t.reshape(-1).tolist()])
                scale = 1.0 if kind == 'real' else max(1.0, 1.01 * max(max(v) for v in a['cert'].values()) / AG.FXS)
                r = c02.one_run(lambda: AG.build_fgg_fx(b, kind, torch.float64)[0], kind, 'fx', method, 1e-6, 1000, torch.float64, proj, scale)
                r.pop('trace', None)
                r['tag'] = r['tag'] + [f'presentation{pi}']
                runs.append(r)
        out.append({'ag': {kk: b[kk] for kk in ('nls', 'els', 'start', 'rules', 'wfx', 'cert')}, 'runs': runs, 'q_hint': a['q_hint']})
    return out


def run(tier, seed):
    o = Outcome(PID, tier, seed)
    o.assumptions = ['non-recursive targets (exact carriers); schedules sampled by TLC -simulate from the builder machine',
                     'gradient and viterbi-weight invariance are covered through C03/C04 oracles on presented grammars']
    rng = rng_for(seed, 'c12')
    ntargets, nsched = (14, 10) if tier == 'quick' else (60, 25)
    jobs = []
    with Scratch() as work:
        for ti in range(ntargets):
            a = AG.gen_ag(rng, n_nts=(1, 3), max_rules=2, max_nodes=3, max_edges=3, recursion='none', weights='primes',
                          p_inf=0.04 if ti % 3 == 0 else 0.0, dom_sizes=(2, 3) if ti % 2 else (1, 2, 3))
            if ti % 7 == 5:
                a = AG.gen_factor_at_two_levels(rng)      # one factor inside a nonterminal and again next to it
            if ti % 3 == 1 and a['rules']:
                # a production written down twice counts twice
                k = rng.randrange(len(a['rules']))
                a['rules'].insert(rng.randrange(len(a['rules']) + 1), copy.deepcopy(a['rules'][k]))
                if AG.nat_bound(a) > (1 << 18):
                    continue
            for pi in range(2 if tier == 'quick' else 3):
                agp, ren, perm = present(rng, a)
                nitems = sum(len(r['nodes']) + len(r['edges']) + 1 for r in agp['rules']) + len(agp['nls']) + len(agp['els']) * 2
                scheds = schedules(work / f't{ti}_{pi}', agp, nsched, nitems + 2, seed * 1000 + ti * 10 + pi + 1, o)
                for si, s in enumerate(scheds):
                    jobs.append((a, agp, ren, perm, s, len(jobs)))
        o.extra['targets'] = ntargets
        o.extra['schedules_replayed'] = len(jobs)
        cases = pmap(_one, jobs)
        vcases = [v for c in cases for v in c.pop('vit')]
        vv, st, tr, _ = judge_batch(work / 'vjudge', 'Trace_Viterbi', vcases, per_shard_min=20, heap='3g')
        o.states += st
        o.transitions += tr
        o.absorb_verdicts(vcases, vv, load_findings(), part='viterbi')
        o.extra['viterbi_cases_under_presentation'] = len(vcases)
        verdicts, st, tr, _ = judge_batch(work / 'judge', 'Trace_Present', cases, per_shard_min=15, heap='3g')
        o.states += st
        o.transitions += tr
        if any(v.get('v') == 'SPEC-INCONSISTENT' for v in verdicts.values()):
            raise MachineryFailure('model-level theorem Z(presented) = permuted Z(original) failed: specification or presentation generator is wrong')
        o.absorb_verdicts(cases, verdicts, load_findings())
        nrec, kpres = (16, 4) if tier == 'quick' else (100, 5)
        rcases = [c for cs in pmap(drive_recursive, [(seed, i, kpres) for i in range(nrec)], chunksize=1) for c in cs]
        rv, st, tr, _ = judge_batch(work / 'rjudge', 'Trace_Recursive', rcases, per_shard_min=4, heap='3g')
        o.states += st
        o.transitions += tr
        o.absorb_verdicts(rcases, rv, load_findings(), part='recursive_presentations')
        o.extra['recursive_presentations'] = len(rcases)
        o.extra['recursive_presentations_certified'] = sum(1 for v in rv.values() if v.get('certified'))
        o.extra['distinct_schedules'] = len({json.dumps(c['sched']) for c in cases})
        o.sample({'sched': cases[0]['sched'], 'perm': cases[0]['perm'], 'ren': cases[0]['ren']})
    return o


def replay(path, seed):
    rec = json.loads(open(path).read())
    c = rec['case']
    o = Outcome(PID, 'quick', seed)
    c2 = _one((c['ag'], dict(c['agp'], elorder=list(c['agp']['els'])), c['ren'], c['perm'], c['sched'], 0))
    with Scratch() as work:
        verdicts, st, tr, _ = judge_batch(work, 'Trace_Present', [c2])
        o.states, o.transitions = st, tr
        o.absorb_verdicts([c2], verdicts, load_findings())
        o.sample(c2['runs'][0])
    return o
