"""C10 -- tree decompositions valid; exact methods optimal; bounds bracket treewidth.

gen   : TLC (MC_TreeDec) enumerates every labelled simple graph on <= N vertices
        (R3: DP treewidth = min over ALL elimination orders, game bags cover) ;
        seeded graphs on 7..9 vertices; structured graphs (grids, cliques, trees, cycles).
drive : fggs.factorize.tree_decomposition x {min_fill, quickbb, acb}, min_fill,
        minor_min_width, quickbb on fresh copies.
judge : Trace_TreeDec (TLC): validity by definition, Treewidth by subset DP.
"""
from __future__ import annotations
import json, itertools
from ..common import *

PID = 'C10'
METHODS = ('min_fill', 'quickbb', 'acb')


def _mkgraph(g, order):
    return {v: set(g['adj'][v - 1]) for v in order}


def _record_td(t):
    bags = list(t.keys())
    idx = {b: i + 1 for i, b in enumerate(bags)}
    tedges = set()
    for b, ns in t.items():
        for n in ns:
            j = idx.get(n, 0)
            tedges.add((idx[b], j))
    # directed entries; require symmetry by recording a missing reverse as a self-loop-free bogus pair
    und = set()
    for (i, j) in tedges:
        if (j, i) not in tedges:
            und.add((i, 0))
        else:
            und.add((min(i, j), max(i, j)))
    return {'bags': [sorted(b) for b in bags], 'tedges': [list(e) for e in sorted(und)]}


def drive(g, order):
    from fggs import factorize as F
    case = {'g': g, 'order': list(order), 'td': {}}
    for m in METHODS:
        try:
            t = F.tree_decomposition(_mkgraph(g, order), method=m)
            case['td'][m] = {'out': 'ok', 't': _record_td(t)}
        except Exception as e:  # noqa
            case['td'][m] = {'out': 'raise:' + type(e).__name__, 't': {'bags': [], 'tedges': []}}
    try:
        w, o = F.min_fill(_mkgraph(g, order))
        case['mf'] = {'out': 'ok', 'w': int(w), 'order': [int(x) for x in o]}
    except Exception as e:  # noqa
        case['mf'] = {'out': 'raise:' + type(e).__name__, 'w': 0, 'order': []}
    try:
        case['mmw'] = {'out': 'ok', 'w': int(F.minor_min_width(_mkgraph(g, order)))}
    except Exception as e:  # noqa
        case['mmw'] = {'out': 'raise:' + type(e).__name__, 'w': 0}
    try:
        w, o = F.quickbb(_mkgraph(g, order))
        case['qbb'] = {'out': 'ok', 'w': int(w), 'order': [int(x) for x in o]}
    except Exception as e:  # noqa
        case['qbb'] = {'out': 'raise:' + type(e).__name__, 'w': 0, 'order': []}
    return case


def _adj_from_edges(n, edges):
    adj = [[] for _ in range(n)]
    for u, v in edges:
        if u != v and v not in adj[u - 1]:
            adj[u - 1].append(v)
            adj[v - 1].append(u)
    return {'n': n, 'adj': [sorted(a) for a in adj]}


def structured_graphs():
    gs = []
    for n in range(1, 8):
        gs.append(_adj_from_edges(n, [(i, j) for i in range(1, n + 1) for j in range(i + 1, n + 1)]))  # clique
        gs.append(_adj_from_edges(n, [(i, i + 1) for i in range(1, n)]))  # path
        if n >= 3:
            gs.append(_adj_from_edges(n, [(i, i % n + 1) for i in range(1, n + 1)]))  # cycle
        gs.append(_adj_from_edges(n, [(1, i) for i in range(2, n + 1)]))  # star
    for (r, c) in [(2, 2), (2, 3), (3, 3), (2, 4)]:
        e = []
        for i in range(r):
            for j in range(c):
                v = i * c + j + 1
                if j + 1 < c:
                    e.append((v, v + 1))
                if i + 1 < r:
                    e.append((v, v + c))
        gs.append(_adj_from_edges(r * c, e))
    return gs


def _gen_tlc(work, maxn, check_orders, o, workers=1):
    cfg = (f'INIT Init\nNEXT Next\nCONSTANTS MaxN = {maxn}\nCheckOrders = {"TRUE" if check_orders else "FALSE"}\n'
           'INVARIANT DPIsMinOverOrders\nINVARIANT GameBagsCover\nINVARIANT Dump\nCHECK_DEADLOCK FALSE\n')
    r = run_tlc(work, 'MC_TreeDec', cfg, workers=workers, heap='4g')
    o.add_tlc(r)
    return [g for g in r.printed if isinstance(g, dict) and 'adj' in g]


def run(tier, seed):
    o = Outcome(PID, tier, seed)
    o.assumptions = ['graphs are simple undirected graphs given as dict vertex -> set of neighbours',
                     'exhaustive part bounded by the vertex bound in coverage.bounds; beyond it seeded sampling']
    rng = rng_for(seed, 'c10')
    with Scratch() as work:
        if tier == 'quick':
            graphs = _gen_tlc(work / 'gen4', 4, True, o)      # R3 over all orders on <=4 vertices
            graphs = _gen_tlc(work / 'gen5', 5, False, o)     # enumeration for the driver
            o.extra['bounds'] = {'exhaustive_vertices': 5, 'r3_all_orders_vertices': 4, 'random_vertices': '7..9'}
            nrand = 60
        else:
            _gen_tlc(work / 'gen5', 5, True, o)
            graphs = _gen_tlc(work / 'gen6', 6, False, o)
            o.extra['bounds'] = {'exhaustive_vertices': 6, 'r3_all_orders_vertices': 5, 'random_vertices': '7..9'}
            nrand = 1500
        o.extra['tlc_enumerated_graphs'] = len(graphs)
        o.exhaustive = True
        cases = []
        for g in graphs:
            n = g['n']
            cases.append(drive(g, range(1, n + 1)))
            if n >= 2:
                p = list(range(1, n + 1))
                rng.shuffle(p)
                cases.append(drive(g, p))
        for g in structured_graphs():
            cases.append(drive(g, range(1, g['n'] + 1)))
        # catalogue of 7-9 vertex graphs on which min_fill is sub-optimal (inputs only: found by search,
        # TLC recomputes the treewidth); they are where a pruning bug in an exact method shows
        hard = json.loads((VERIF / 'data' / 'minfill_suboptimal_graphs.json').read_text())
        for hg in (hard[:14] if tier == 'quick' else hard):
            g = {'n': hg['n'], 'adj': hg['adj']}
            cases.append(drive(g, range(1, g['n'] + 1)))
        o.extra['hard_catalogue_graphs'] = 14 if tier == 'quick' else len(hard)
        for _ in range(nrand):
            n = rng.randint(7, 9 if tier == 'thorough' else 8)
            dens = rng.choice([0.2, 0.35, 0.5, 0.65])
            e = [(i, j) for i in range(1, n + 1) for j in range(i + 1, n + 1) if rng.random() < dens]
            g = _adj_from_edges(n, e)
            p = list(range(1, n + 1))
            rng.shuffle(p)
            cases.append(drive(g, p))
        verdicts, st, tr, _ = judge_batch(work / 'judge', 'Trace_TreeDec', cases, per_shard_min=100, heap='3g')
        o.states += st
        o.transitions += tr
        o.absorb_verdicts(cases, verdicts, load_findings())
        o.sample(cases[len(cases) // 2])
        o.sample(cases[-1])
        tws = {}
        for v in verdicts.values():
            tws[v.get('tw')] = tws.get(v.get('tw'), 0) + 1
        o.extra['treewidth_histogram'] = {str(k): v for k, v in sorted(tws.items(), key=lambda x: str(x))}
        o.extra['min_fill_machine_drift'] = sum(1 for v in verdicts.values() if v.get('mfdrift', 0) != 0)
        # R3: the nondeterministic min-fill machine (spec/MinFill.tla), every tie-break on every graph of the bound
        mn = 4 if tier == 'quick' else 5
        invs = ['OrderIsPermutation', 'ReportsItsWidth', 'NeverBelowTreewidth', 'OptimalOnSmallGraphs', 'ReplayAccepts']
        r = run_tlc(work / 'minfill', 'MC_MinFill', f'INIT Init\nNEXT Next\nCONSTANTS MaxN = {mn}\n' + ''.join(f'INVARIANT {x}\n' for x in invs) + 'CHECK_DEADLOCK FALSE\n',
                    workers=8, heap='4g', decode=False)
        o.add_tlc(r)
        o.extra['min_fill_machine_states'] = r.states
        mf_subopt = sum(1 for i, c in enumerate(cases) if c['mf']['out'] == 'ok' and c['mf']['w'] > verdicts[i + 1].get('tw', 99))
        o.extra['graphs_where_min_fill_is_suboptimal'] = mf_subopt
    return o


def replay(path, seed):
    rec = json.loads(open(path).read())
    c = rec['case']
    o = Outcome(PID, 'quick', seed)
    with Scratch() as work:
        c2 = drive(c['g'], c['order'])
        verdicts, st, tr, _ = judge_batch(work, 'Trace_TreeDec', [c2])
        o.states, o.transitions = st, tr
        o.absorb_verdicts([c2], verdicts, load_findings())
        o.sample(c2)
    return o
