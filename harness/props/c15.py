"""C15 -- hyperedge replacement is typed, fresh and order-independent.

gen   : seeded abstract HRGs + derivation trees (<= 4/5 rule instances, also partial);
        TLC (Derive!DvLinearisations) enumerates EVERY linearisation of each tree.
drive : fggs.start_graph + fggs.replace_edge along each linearisation on real graphs, naming
        fresh nodes/edges canonically through the returned node_map/edge_map;
        FGGDerivation.derive() on the same tree; replacements of the wrong type.
judge : Trace_Derive (TLC): every step satisfies the replacement post-condition; every
        linearisation ends in the graph Derive.tla derives; derive() yields it with a total
        assignment and the product weight.
"""
from __future__ import annotations
import json, warnings
from ..common import *
from .. import ag as AG

PID = 'C15'


def gen_tree(rng, a, max_inst, p_stop=0.0):
    """Random derivation (flat instance list, 1-based parents) or None if it cannot be completed."""
    rules_of = {}
    for i, r in enumerate(a['rules']):
        rules_of.setdefault(r['lhs'], []).append(i + 1)
    if a['start'] not in rules_of:
        return None
    d = [{'rule': rng.choice(rules_of[a['start']]), 'parent': 0, 'via': 0, 'path': []}]
    agenda = [1]
    while agenda:
        i = agenda.pop(0)
        r = a['rules'][d[i - 1]['rule'] - 1]
        for k, e in enumerate(r['edges']):
            if a['els'][e['lab']]['t']:
                continue
            if rng.random() < p_stop:
                continue            # leave this nonterminal edge unexpanded (partial derivation)
            if e['lab'] not in rules_of:
                if p_stop > 0:
                    continue
                return None
            if len(d) >= max_inst:
                if p_stop > 0:
                    continue
                return None
            d.append({'rule': rng.choice(rules_of[e['lab']]), 'parent': i, 'via': k + 1, 'path': d[i - 1]['path'] + [k + 1]})
            agenda.append(len(d))
    return d


class Namer:
    def __init__(self):
        self.n, self.e = {}, {}

    def node(self, v):
        return {'id': self.n.get(v.id, [-1, abs(hash(v.id)) % 100000]), 'l': v.label.name}

    def label(self, l):
        return {'name': l.name, 'type': [x.name for x in l.type], 't': bool(l.is_terminal)}

    def edge(self, e):
        return {'id': self.e.get(e.id, [-1, abs(hash(e.id)) % 100000]), 'lab': self.label(e.label),
                'att': [self.node(v) for v in e.nodes]}

    def graph(self, g):
        return {'nodes': [self.node(v) for v in g.nodes()], 'edges': [self.edge(e) for e in g.edges()],
                'ext': [self.node(v) for v in g.ext]}


def local_proj(rhs, nodes, edges):
    """Projection of a rule's right-hand side with rule-local ids <<j>> / <<k>>."""
    nid = {v.id: [j + 1] for j, v in enumerate(nodes)}
    N = Namer()
    pn = lambda v: {'id': nid[v.id], 'l': v.label.name}
    return {'nodes': [pn(v) for v in rhs.nodes()],
            'edges': [{'id': [k + 1], 'lab': N.label(e.label), 'att': [pn(v) for v in e.nodes]} for k, e in enumerate(edges)],
            'ext': [pn(v) for v in rhs.ext]}


def run_linearisation(a, d, order):
    import fggs
    g, info = AG.build_fgg(a, with_interp=False, implicit_ids=True)
    host = fggs.start_graph(g)
    N = Namer()
    [start_edge] = list(host.edges())
    N.e[start_edge.id] = [0]
    for k, v in enumerate(start_edge.nodes):
        N.n[v.id] = [0, 0, k + 1]
    host_edge = {}        # (instance, k) -> real edge in host
    steps = []
    for i in order:
        inst = d[i - 1]
        ri = inst['rule'] - 1
        rule = info['rules'][ri]
        e = start_edge if inst['parent'] == 0 else host_edge[(inst['parent'], inst['via'])]
        pre = N.graph(host)
        pe = N.edge(e)
        out, nmap, emap = 'ok', [], []
        try:
            node_map, edge_map = fggs.replace_edge(host, e, rule.rhs)
            for j, v in enumerate(info['nodes'][ri]):
                hv = node_map[v]
                if v not in rule.rhs.ext and hv.id not in N.n:
                    N.n[hv.id] = inst['path'] + [0, j + 1]
            for j, v in enumerate(info['nodes'][ri]):
                nmap.append([[j + 1], N.node(node_map[v])['id']])
            for k, re in enumerate(info['edges'][ri]):
                he = edge_map[re]
                N.e[he.id] = inst['path'] + [0, k + 1]
                host_edge[(i, k + 1)] = he
                emap.append([[k + 1], N.e[he.id]])
        except Exception as ex:  # noqa
            out = 'raise:' + type(ex).__name__
        steps.append({'pre': pre, 'post': N.graph(host), 'e': pe, 'rhs': local_proj(rule.rhs, info['nodes'][ri], info['edges'][ri]),
                      'nmap': nmap, 'emap': emap, 'out': out})
        if out != 'ok':
            break
    return {'kind': 'run', 'ag': a, 'd': d, 'order': list(order), 'steps': steps, 'final': N.graph(host)}


def owner_name(a, d, i, j):
    r = a['rules'][d[i - 1]['rule'] - 1]
    if j in r['ext']:
        k = r['ext'].index(j)
        if d[i - 1]['parent'] == 0:
            return (0, 0, k + 1)
        p = d[i - 1]['parent']
        pr = a['rules'][d[p - 1]['rule'] - 1]
        return owner_name(a, d, p, pr['edges'][d[i - 1]['via'] - 1]['att'][k])
    return tuple(d[i - 1]['path'] + [0, j])


def run_derive(a, d, rng):
    """FGGDerivation.derive(): (1) structure, nodes identified through unique assignment codes;
    (2) weight with a consistent random assignment of domain values."""
    import fggs, torch
    from fggs.derivations import FGGDerivation
    case = {'kind': 'derive', 'ag': a, 'd': d, 'out': 'ok', 'final': {'nodes': [], 'edges': [], 'ext': []},
            'total': False, 'weight': [0, 0], 'assts': []}
    try:
        g, info = AG.build_fgg(a, 'real', torch.float64, implicit_ids=True)
        names = {}
        code = {}
        for i in range(1, len(d) + 1):
            for j in range(1, len(a['rules'][d[i - 1]['rule'] - 1]['nodes']) + 1):
                nm = owner_name(a, d, i, j)
                if nm not in code:
                    code[nm] = len(code) + 1000
                names[(i, j)] = nm
        inv = {c: list(nm) for nm, c in code.items()}

        def build(i, valof):
            ri = d[i - 1]['rule'] - 1
            asst = {v: valof(i, j + 1) for j, v in enumerate(info['nodes'][ri])}
            children = {}
            for c in range(1, len(d) + 1):
                if d[c - 1]['parent'] == i:
                    children[info['edges'][ri][d[c - 1]['via'] - 1]] = build(c, valof)
            return FGGDerivation(g, info['rules'][ri], asst, children)
        # (1) structure
        graph, asst = build(1, lambda i, j: code[names[(i, j)]]).derive()
        N = Namer()
        for v in graph.nodes():
            if v in asst and asst[v] in inv:
                N.n[v.id] = inv[asst[v]]
        case['final'] = N.graph(graph)
        case['total'] = all(v in asst for v in graph.nodes())
        # (2) weight
        val = {nm: None for nm in code}
        for (i, j), nm in names.items():
            if val[nm] is None:
                size = a['nls'][a['rules'][d[i - 1]['rule'] - 1]['nodes'][j - 1]]
                val[nm] = rng.randrange(size) if size > 0 else 0
        case['assts'] = [[val[names[(i, j)]] for j in range(1, len(a['rules'][d[i - 1]['rule'] - 1]['nodes']) + 1)]
                         for i in range(1, len(d) + 1)]
        graph2, asst2 = build(1, lambda i, j: val[names[(i, j)]]).derive()
        w = 1.0
        for e in graph2.edges():
            if e.label.is_terminal:
                w *= float(graph2.factors[e.label.name].apply([asst2[v] for v in e.nodes]))
        s = snap_int(w)
        case['weight'] = [s, s]
        case['total'] = case['total'] and all(v in asst2 for v in graph2.nodes())
        case['_build'] = (build, val, names)
    except Exception as ex:  # noqa
        case['out'] = 'raise:' + type(ex).__name__
        case['err'] = str(ex)[:200]
    return case


def run_derive_shared(a, d, case):
    """the same derivation tree with identical subderivations built ONCE and used at every position where they occur
    (as a memoising enumerator of derivations would): returns a `derive_shared` case, or None if nothing is shared"""
    from fggs.derivations import FGGDerivation
    if '_build' not in case:
        return None
    _, val, names = case.pop('_build')
    c2 = {'kind': 'derive_shared', 'ag': a, 'd': d, 'out': 'ok', 'nn': -1, 'ne': -1, 'total': False, 'weight': [0, 0],
          'assts': case['assts'], 'shared': 0}
    try:
        import torch
        g, info = AG.build_fgg(a, 'real', torch.float64, implicit_ids=True)
        memo = {}

        def build(i):
            ri = d[i - 1]['rule'] - 1
            vals = tuple(val[names[(i, j + 1)]] for j in range(len(info['nodes'][ri])))
            kids = []
            for c in range(1, len(d) + 1):
                if d[c - 1]['parent'] == i:
                    kids.append((d[c - 1]['via'], build(c)))
            key = (ri, vals, tuple((via, id(k)) for via, k in sorted(kids, key=lambda x: x[0])))
            if key in memo:
                c2['shared'] += 1
                return memo[key]
            dv = FGGDerivation(g, info['rules'][ri], dict(zip(info['nodes'][ri], vals)),
                               {info['edges'][ri][via - 1]: k for via, k in kids})
            memo[key] = dv
            return dv
        root = build(1)
        if c2['shared'] == 0:
            return None
        graph, asst = root.derive()
        c2['nn'], c2['ne'] = len(graph.nodes()), len(graph.edges())
        c2['total'] = all(v in asst for v in graph.nodes())
        w = 1.0
        for e in graph.edges():
            if e.label.is_terminal:
                w *= float(graph.factors[e.label.name].apply([asst[v] for v in e.nodes]))
        s_ = snap_int(w)
        c2['weight'] = [s_, s_]
    except Exception as ex:  # noqa
        c2['out'] = 'raise:' + type(ex).__name__
        c2['err'] = str(ex)[:200]
    return c2


def run_wrong(a, rng):
    """replace the start edge by the rhs of a rule of another type: must raise, graph unchanged"""
    import fggs
    g, info = AG.build_fgg(a, with_interp=False, implicit_ids=True)
    st = a['els'][a['start']]['type']
    cands = [i for i, r in enumerate(a['rules']) if a['els'][r['lhs']]['type'] != st]
    if not cands:
        return None
    ri = rng.choice(cands)
    host = fggs.start_graph(g)
    N = Namer()
    [e] = list(host.edges())
    N.e[e.id] = [0]
    for k, v in enumerate(e.nodes):
        N.n[v.id] = [0, 0, k + 1]
    pre = N.graph(host)
    out = 'ok'
    try:
        fggs.replace_edge(host, e, info['rules'][ri].rhs)
    except Exception as ex:  # noqa
        out = 'raise:' + type(ex).__name__
    step = {'pre': pre, 'post': N.graph(host), 'e': N.edge(e), 'rhs': local_proj(info['rules'][ri].rhs, info['nodes'][ri], info['edges'][ri]),
            'nmap': [], 'emap': [], 'out': out}
    return {'kind': 'wrong', 'ag': a, 'd': [{'rule': 1, 'parent': 0, 'via': 0, 'path': []}], 'step': step}


def _slim(a):
    return {k: a[k] for k in ('nls', 'els', 'elorder', 'start', 'rules', 'w')}


def run(tier, seed):
    o = Outcome(PID, tier, seed)
    o.assumptions = ['derivation trees bounded by the instance count in coverage.bounds; ALL linearisations of each tree are executed',
                     'replacement graphs have pairwise distinct external nodes']
    rng = rng_for(seed, 'c15')
    ntrees, maxinst = (140, 4) if tier == 'quick' else (1500, 5)
    o.extra['bounds'] = {'trees': ntrees, 'max_rule_instances': maxinst}
    trees = []
    attempts = 0
    while len(trees) < ntrees and attempts < ntrees * 60:
        attempts += 1
        a = AG.gen_ag(rng, n_nts=(1, 3), max_rules=2, max_nodes=3, max_edges=3, recursion='any', weights='small',
                      p_norules=0.0, dom_sizes=(1, 2), p_zero=0.1, value_cap=1 << 30)
        d = gen_tree(rng, a, maxinst, p_stop=0.0 if len(trees) % 4 else 0.3)
        if d is None or len(d) < (2 if len(trees) % 3 else 1):
            continue
        trees.append((_slim(a), d))
    with Scratch() as work:
        gen = [{'kind': 'lins', 'ag': a, 'd': d} for a, d in trees]
        lv, st, tr, _ = judge_batch(work / 'lins', 'Trace_Derive', gen, per_shard_min=40)
        o.states += st
        o.transitions += tr
        cases = []
        nlin = 0
        for t, (a, d) in enumerate(trees):
            lins = lv[t + 1]['lins']
            nlin += len(lins)
            for order in lins:
                cases.append(run_linearisation(a, d, order))
            cd = run_derive(a, d, rng)
            cases.append(cd)
            cs = run_derive_shared(a, d, cd)
            cd.pop('_build', None)
            if cs is not None:
                cases.append(cs)
            if t % 3 == 0:
                w = run_wrong(a, rng)
                if w:
                    cases.append(w)
        o.extra['linearisations_executed'] = nlin
        o.extra['max_linearisations_of_one_tree'] = max(len(lv[t + 1]['lins']) for t in range(len(trees)))
        verdicts, st, tr, _ = judge_batch(work / 'judge', 'Trace_Derive', cases, per_shard_min=60)
        o.states += st
        o.transitions += tr
        o.absorb_verdicts(cases, verdicts, load_findings())
        o.exhaustive = True
        kinds = {}
        for c in cases:
            kinds[c['kind']] = kinds.get(c['kind'], 0) + 1
        o.extra['cases_by_kind'] = kinds
        big = max((c for c in cases if c['kind'] == 'run'), key=lambda c: len(c['steps']))
        o.sample({'d': big['d'], 'order': big['order'], 'final_edges': len(big['final']['edges'])})
    return o


def replay(path, seed):
    rec = json.loads(open(path).read())
    c = rec['case']
    o = Outcome(PID, 'quick', seed)
    rng = rng_for(seed, 'c15r')
    if c['kind'] == 'run':
        c2 = run_linearisation(c['ag'], c['d'], c['order'])
    elif c['kind'] == 'derive':
        c2 = run_derive(c['ag'], c['d'], rng)
        c2.pop('_build', None)
    else:
        c2 = run_wrong(c['ag'], rng) or c
    with Scratch() as work:
        verdicts, st, tr, _ = judge_batch(work, 'Trace_Derive', [c2])
        o.states, o.transitions = st, tr
        o.absorb_verdicts([c2], verdicts, load_findings())
        o.sample({'kind': c2['kind']})
    return o
