"""C06 -- patterned tensors behave exactly like the dense tensors they denote.

gen   : seeded TYPED patterns (index types n | TxT | n+T+n nested to depth 2, shared physical
        axes only between positions of the same type, size-0/1 axes, defaults 0/1/+-inf/5/nan,
        contiguous / transposed physical layouts, distinct or special values).
drive : every operation the class offers, on one, two or three operands over a common typed
        shape (also the same object twice), against the torch operation on to_dense() of the
        operands; reshape/view targets incl. merges and unit-dim insertions; short programs.
judge : Trace_Tensor (TLC): to_dense() is the denotation PtDense(structure) computed by the
        specification; results match torch on dense; every result structure -- and (hook)
        every PatternedTensor built inside the library -- satisfies the representation invariant.
part axis_algebra (harness/props/c06_axes.py): Axis.unify / antiunify / stride / index / freshen on every pair of typed
        axis lists TLC enumerates (MC_AxisAlg), judged by Trace_AxisAlg against their meaning for index maps.
"""
from __future__ import annotations
import itertools, json, math, warnings
from ..common import *
from .. import pt as PT

PID = 'C06'
DEFAULTS = [0.0, 1.0, 5.0, -math.inf, math.inf]


def obs_of(t):
    """dense observation {shape, flat} of a torch tensor or PatternedTensor"""
    from fggs.indices import PatternedTensor
    if isinstance(t, PatternedTensor):
        t = t.to_dense()
    return {'shape': [int(x) for x in t.shape], 'flat': PT.enc_tensor(t), 'dt': str(t.dtype).replace('torch.', '')}


def case_dense(struct, layout, dtype):
    c = {'kind': 'dense', 'st': PT.encode_struct(struct), 'out': 'ok', 'rb': None, 'obs': {'shape': [], 'flat': []},
         'tag': ['dense', layout]}
    try:
        p = PT.build(struct, dtype, layout)
        c['rb'] = PT.readback(p)
        c['obs'] = obs_of(p)
    except Exception as e:  # noqa
        c['out'] = 'raise:' + type(e).__name__
        c['rb'] = c['st']
    return c


def op_case(name, fn_pt, fn_dense, operands, *, mayraise=False, extra=None):
    """apply fn_pt to clones of the patterned operands and fn_dense to their dense forms"""
    import torch
    from fggs.indices import PatternedTensor
    c = {'kind': 'op', 'op': name, 'out': 'ok', 'mayraise': mayraise, 'hasst': False, 'rb': PT.encode_struct({'ps': [], 'vs': [], 'd': 0, 'ph': [0]}),
         'obs': {'shape': [], 'flat': [], 'dt': ''}, 'exp': {'shape': [], 'flat': [], 'dt': ''}, 'tag': ['op', name] + (extra or [])}
    try:
        with warnings.catch_warnings(record=True) as wl:
            warnings.simplefilter('always')
            dense = [o.to_dense() for o in operands]
            try:
                exp = fn_dense(*[d.clone() for d in dense])
            except Exception as e:  # torch itself rejects: not a case
                return None
            res = fn_pt(*operands)
            if any('index type mismatch' in str(w.message) for w in wl):
                raise MachineryFailure(f'type-mismatch warning on a well-typed input in {name}: the typing model of the generator is wrong')
        if isinstance(res, PatternedTensor):
            c['hasst'] = True
            c['rb'] = PT.readback(res)
        c['obs'] = obs_of(res if not isinstance(res, (list, tuple, bool, int, float)) else torch.as_tensor(res))
        c['exp'] = obs_of(exp if not isinstance(exp, (list, tuple, bool, int, float)) else torch.as_tensor(exp))
        if isinstance(res, (list, tuple, bool, int, float)) or name in ('tolist', 'iter'):
            c['obs']['dt'] = c['exp']['dt'] = 'py'
        c['_res'] = res if isinstance(res, PatternedTensor) else None
    except MachineryFailure:
        raise
    except Exception as e:  # noqa
        c['out'] = 'raise:' + type(e).__name__
        c['err'] = str(e)[:160]
    return c


def unary_ops(p, rng):
    import torch
    nd = p.ndim
    ops = []
    fl = p.dtype != torch.bool
    if fl:
        ops += [('abs', lambda t: t.abs(), lambda d: d.abs()),
                ('exp', lambda t: t.exp(), lambda d: d.exp()),
                ('expm1', lambda t: t.expm1(), lambda d: d.expm1()),
                ('log', lambda t: t.log(), lambda d: d.log()),
                ('clamp_min', lambda t: t.clamp_min(2.0), lambda d: d.clamp_min(2.0)),
                ('clamp_max', lambda t: t.clamp_max(2.0), lambda d: d.clamp_max(2.0)),
                ('neg_', lambda t: t.clone().neg_(), lambda d: d.neg_()),
                ('log_', lambda t: t.clone().log_(), lambda d: d.log_()),
                ('log1p_', lambda t: t.clone().log1p_(), lambda d: d.log1p_()),
                ('relu_', lambda t: t.clone().relu_(), lambda d: d.relu_()),
                ('abs_', lambda t: t.clone().abs_(), lambda d: d.abs_()),
                ('nan_to_num_', lambda t: t.clone().nan_to_num_(nan=7., posinf=8., neginf=-8.), lambda d: d.nan_to_num_(nan=7., posinf=8., neginf=-8.)),
                ('nan_to_num_inf', lambda t: t.clone().nan_to_num_(nan=-math.inf, posinf=math.inf, neginf=-math.inf), lambda d: d.nan_to_num_(nan=-math.inf, posinf=math.inf, neginf=-math.inf)),
                ('add_scalar', lambda t: t.add(2.0), lambda d: d.add(2.0)),
                ('mul_scalar', lambda t: t.mul(3.0), lambda d: d.mul(3.0)),
                ('sub_scalar', lambda t: t.sub(1.0), lambda d: d.sub(1.0)),
                ('div_scalar', lambda t: t.div(2.0), lambda d: d.div(2.0)),
                ('imul_scalar', lambda t: t.clone().__imul__(2.0), lambda d: d.mul_(2.0)),
                ('itruediv_scalar', lambda t: t.clone().__itruediv__(2.0), lambda d: d.div_(2.0)),
                ('lt_scalar', lambda t: t.lt(2.0), lambda d: d.lt(2.0)),
                ('le_scalar', lambda t: t.le(2.0), lambda d: d.le(2.0)),
                ('gt_scalar', lambda t: t.gt(2.0), lambda d: d.gt(2.0)),
                ('ge_scalar', lambda t: t.ge(2.0), lambda d: d.ge(2.0)),
                ('eq_scalar', lambda t: t.eq(2.0), lambda d: d.eq(2.0)),
                ('to_float32', lambda t: t.to(torch.float32), lambda d: d.to(torch.float32)),
                ('default_to', lambda t: t.default_to(3.0), lambda d: d)]
    else:
        ops += [('logical_not', lambda t: t.logical_not(), lambda d: d.logical_not()),
                ('to_float', lambda t: t.to(torch.float64), lambda d: d.to(torch.float64))]
    ops += [('clone', lambda t: t.clone(), lambda d: d.clone()),
            ('detach', lambda t: t.detach(), lambda d: d.detach()),
            ('flatten', lambda t: t.flatten(), lambda d: d.flatten()),
            ('T', lambda t: t.T, lambda d: d.permute(*reversed(range(d.ndim)))),
            ('tolist', lambda t: torch.as_tensor(t.tolist(), dtype=t.dtype).reshape(tuple(t.size())) if t.numel() else t.to_dense(),
             lambda d: d),
            ('freshen', lambda t: t.freshen(), lambda d: d)]
    if nd >= 1:
        ops += [('iter', lambda t: torch.stack([x.to_dense() for x in t]) if len(t) else t.to_dense(), lambda d: d),
                ('len', lambda t: len(t), lambda d: len(d))]
    if nd <= 2:
        ops.append(('t', lambda t: t.t(), lambda d: d.t()))
    for dim in range(nd + 1):
        ops.append((f'unsqueeze{dim}', lambda t, dim=dim: t.unsqueeze(dim), lambda d, dim=dim: d.unsqueeze(dim)))
    ops.append(('unsqueeze-1', lambda t: t.unsqueeze(-1), lambda d: d.unsqueeze(-1)))
    for dim in range(nd):
        ops.append((f'dim_to_dense{dim}', lambda t, dim=dim: t.dim_to_dense(dim), lambda d: d))
        if fl:
            ops.append((f'log_softmax{dim}', lambda t, dim=dim: t.log_softmax(dim), lambda d, dim=dim: d.log_softmax(dim)))
            ops.append((f'norm{dim}', lambda t, dim=dim: t.norm(2, dim), lambda d, dim=dim: d.norm(2, dim)))
            ops.append((f'norm1k{dim}', lambda t, dim=dim: t.norm(1, dim, keepdim=True), lambda d, dim=dim: d.norm(1, dim, keepdim=True)))
        else:
            ops.append((f'any{dim}', lambda t, dim=dim: t.any(dim), lambda d, dim=dim: d.any(dim)))
            ops.append((f'anyk{dim}', lambda t, dim=dim: t.any(dim, keepdim=True), lambda d, dim=dim: d.any(dim, keepdim=True)))
    if nd >= 2:
        perm = list(range(nd))
        rng.shuffle(perm)
        ops.append(('permute', lambda t, perm=perm: t.permute(perm), lambda d, perm=perm: d.permute(perm)))
        d0, d1 = rng.sample(range(nd), 2)
        ops.append(('transpose', lambda t: t.transpose(d0, d1), lambda d: d.transpose(d0, d1)))
    size = list(p.size())
    if all(s > 0 for s in size) and nd >= 1:
        idx = tuple(rng.randrange(s) for s in size[:rng.randint(1, nd)])
        ops.append(('getitem', lambda t, idx=idx: t[idx], lambda d, idx=idx: d[idx]))
        ops.append(('getitem_int', lambda t, i=idx[0]: t[i], lambda d, i=idx[0]: d[i]))
    if any(s == 1 for s in size):
        target = [rng.choice([2, 3]) if s == 1 else s for s in size]
        ops.append(('expand', lambda t, target=target: t.expand(*target), lambda d, target=target: d.expand(*target)))
        ops.append(('expand_lead', lambda t, target=target: t.expand(2, *target), lambda d, target=target: d.expand(2, *target)))
        ops.append(('repeat', lambda t, target=target: t.repeat(*target), lambda d, target=target: d.expand(*target).clone()))
    return ops


def binary_ops(p):
    import torch
    fl = p.dtype != torch.bool
    if fl:
        return [('add', lambda t, u: t.add(u), lambda a, b: a.add(b)),
                ('mul', lambda t, u: t.mul(u), lambda a, b: a.mul(b)),
                ('sub', lambda t, u: t.sub(u), lambda a, b: a.sub(b)),
                ('div', lambda t, u: t.div(u), lambda a, b: a.div(b)),
                ('__add__', lambda t, u: t + u, lambda a, b: a + b),
                ('__sub__', lambda t, u: t - u, lambda a, b: a - b),
                ('__mul__', lambda t, u: t * u, lambda a, b: a * b),
                ('__truediv__', lambda t, u: t / u, lambda a, b: a / b),
                ('logaddexp', lambda t, u: t.logaddexp(u), lambda a, b: a.logaddexp(b)),
                ('maximum', lambda t, u: t.maximum(u), lambda a, b: a.maximum(b)),
                ('lt', lambda t, u: t.lt(u), lambda a, b: a.lt(b)),
                ('le', lambda t, u: t.le(u), lambda a, b: a.le(b)),
                ('gt', lambda t, u: t.gt(u), lambda a, b: a.gt(b)),
                ('ge', lambda t, u: t.ge(u), lambda a, b: a.ge(b)),
                ('eq', lambda t, u: t.eq(u), lambda a, b: a.eq(b)),
                ('imul', lambda t, u: t.clone().__imul__(u), lambda a, b: a.mul_(b)),
                ('itruediv', lambda t, u: t.clone().__itruediv__(u), lambda a, b: a.div_(b)),
                ('copy_', lambda t, u: _copy_(t.clone(), u), lambda a, b: b.clone()),
                ('copy_src_intact', lambda t, u: _copy_src(t.clone(), u), lambda a, b: b.clone()),
                ('stack0', lambda t, u: _stack([t, u], 0), lambda a, b: torch.stack([a, b], 0)),
                ('stack1', lambda t, u: _stack([t, u], min(1, t.ndim)), lambda a, b: torch.stack([a, b], min(1, a.ndim))),
                ('stack3', lambda t, u: _stack([t, u, t], 0), lambda a, b: torch.stack([a, b, a], 0))]
    return [('logical_or', lambda t, u: t.logical_or(u), lambda a, b: a.logical_or(b)),
            ('logical_and', lambda t, u: t.logical_and(u), lambda a, b: a.logical_and(b)),
            ('eq', lambda t, u: t.eq(u), lambda a, b: a.eq(b))]


def _copy_(t, u):
    t.copy_(u)
    return t


def _copy_src(t, u):
    """after t.copy_(u), an in-place write to t must not reach u"""
    import torch
    t.copy_(u)
    try:
        t.physical.fill_(False if t.physical.dtype == torch.bool else 0)
    except Exception:
        pass
    return u


def _stack(ts, dim):
    from fggs.indices import stack
    if len({x.default if x.default == x.default else 'nan' for x in ts}) > 1:
        raise _Skip()
    return stack(ts, dim)


class _Skip(Exception):
    pass


def reshape_cases(p, dense, rng):
    """reshape / view: merges of adjacent dims, unit insertions/removals, and arbitrary targets"""
    import torch
    shape = [int(x) for x in p.size()]
    n = 1
    for s in shape:
        n *= s
    targets = set()
    targets.add((n,))
    for i in range(len(shape) - 1):
        targets.add(tuple(shape[:i] + [shape[i] * shape[i + 1]] + shape[i + 2:]))
    for i in range(len(shape) + 1):
        targets.add(tuple(shape[:i] + [1] + shape[i:]))
    targets.add(tuple(s for s in shape if s != 1))
    targets.add(tuple(reversed(shape)))
    if n > 0:
        for a in range(1, n + 1):
            if n % a == 0 and rng.random() < 0.5:
                targets.add((a, n // a))
        targets.add((-1,))
    out = []
    for tg in targets:
        for how in ('reshape', 'view'):
            tgt = [n if x == -1 else x for x in tg]
            c = {'kind': 'reshape', 'how': how, 'shape': shape, 'target': tgt, 'out': 'ok', 'rb': PT.encode_struct({'ps': [], 'vs': [], 'd': 0, 'ph': [0]}),
                 'obs': {'shape': [], 'flat': []}, 'exp': obs_of(dense.reshape(tgt)), 'tag': ['reshape', how]}
            try:
                with warnings.catch_warnings():
                    warnings.simplefilter('ignore')
                    r = getattr(p, how)(*tg)
                c['rb'] = PT.readback(r)
                c['obs'] = obs_of(r)
            except Exception as e:  # noqa
                c['out'] = 'raise:' + type(e).__name__
                c['err'] = str(e)[:100]
            out.append(c)
    return out


def drain_hook(seen):
    """structures of PatternedTensors constructed inside the library since the last drain"""
    from fggs import indices
    out = []
    log = getattr(indices, '_verif_log', None)
    if not log:
        return out
    from fggs.indices import PhysicalAxis, ProductAxis, SumAxis
    for (paxes, vaxes, default, psize) in log:
        ids = {}

        def name(k):
            return ids.setdefault(id(k), len(ids) + 1)

        def term(e):
            if isinstance(e, PhysicalAxis):
                return {'k': 'P', 'id': name(e), 'n': e._numel}
            if isinstance(e, ProductAxis):
                return {'k': 'X', 'fs': [term(f) for f in e.factors]}
            return {'k': 'S', 'b': e.before, 't': term(e.term), 'a': e.after}
        try:
            st = {'ps': [{'id': name(k), 'n': k._numel} for k in paxes], 'vs': [term(e) for e in vaxes], 'd': 0}
        except Exception:
            continue
        n = 1
        for s in psize:
            n *= s
        key = json.dumps([st['ps'], st['vs'], list(psize)])
        if key in seen:
            continue
        seen.add(key)
        if n > 4096 or len(st['vs']) > 6:
            continue
        st['ph'] = [0] * n
        out.append({'kind': 'wf', 'rb': st, 'tag': ['wf']})
    del log[:]
    return out


def typed_shapes(rng, k):
    shapes = []
    for _ in range(k):
        nd = rng.choice([0, 1, 1, 2, 2, 2, 3])
        cap = {0: 1, 1: 6, 2: 4, 3: 3}[nd]
        shapes.append([PT.gen_type(rng, cap) for _ in range(nd)])
    return shapes


def drive_shape(args):
    import torch
    types, seed, nper = args
    rng = rng_for(seed, 'c06' + repr(types))
    cases = []
    seen = set()
    for boolmode in (False, True):
        dtype = torch.bool if boolmode else rng.choice([torch.float64, torch.float32])
        pats = []
        for i in range(nper):
            d = (rng.random() < 0.5) if boolmode else rng.choice(DEFAULTS)
            st = PT.gen_pattern(rng, types, default=d, scheme=rng.choice(PT.VALUE_SCHEMES), start_id=1 + 10 * i,
                                dtype='bool' if boolmode else 'float')
            layout = rng.choice(['contig', 'transposed'])
            cases.append(case_dense(st, layout, dtype))
            try:
                pats.append(PT.build(st, dtype, layout))
            except Exception:
                pass
        if not boolmode:
            # a NaN default where the library gives it meaning (gradients): structural operations only
            st = PT.gen_pattern(rng, types, default=math.nan, scheme='distinct', start_id=900)
            cases.append(case_dense(st, 'contig', dtype))
            # ... and nan_to_num_ on it, for option combinations in which the replacement of nan is itself infinite
            # (torch replaces nan, +inf and -inf in ONE pass: a replaced value is not replaced again)
            try:
                pn = PT.build(st, dtype, 'contig')
                for k, (nn, pi, ni) in enumerate([(7., 8., -8.), (math.inf, 5., -5.), (-math.inf, 5., -5.), (math.inf, None, None), (0., math.inf, -math.inf)]):
                    c = op_case(f'nan_to_num_nandefault{k}', lambda t, nn=nn, pi=pi, ni=ni: t.clone().nan_to_num_(nan=nn, posinf=pi, neginf=ni),
                                lambda d, nn=nn, pi=pi, ni=ni: d.nan_to_num_(nan=nn, posinf=pi, neginf=ni), [pn])
                    if c:
                        cases.append(c)
            except MachineryFailure:
                raise
            except Exception:
                pass
        for p in pats:
            for (name, f, g) in unary_ops(p, rng):
                c = op_case(name, f, g, [p])
                if c:
                    cases.append(c)
            cases.extend(reshape_cases(p, p.to_dense(), rng))
            # HISTORIES on one object: read it, change it in place, read it again -- the second read must see the change
            if not boolmode and p.ndim >= 1:
                reads = [('tolist', lambda t: torch.as_tensor(t.tolist(), dtype=t.dtype).reshape(tuple(t.size())) if t.numel() else t.to_dense(), lambda d: d),
                         ('iter', lambda t: torch.stack([x.to_dense() for x in t]) if len(t) else t.to_dense(), lambda d: d),
                         ('to_dense', lambda t: t.to_dense(), lambda d: d)]
                for dim in range(p.ndim):
                    reads.append((f'dim_to_dense{dim}', lambda t, dim=dim: t.dim_to_dense(dim).to_dense(), lambda d: d))
                    reads.append((f'log_softmax{dim}', lambda t, dim=dim: t.log_softmax(dim).to_dense(), lambda d, dim=dim: d.log_softmax(dim)))
                    reads.append((f'norm{dim}', lambda t, dim=dim: t.norm(2, dim).to_dense(), lambda d, dim=dim: d.norm(2, dim)))
                inpl = [('neg_', lambda t: t.neg_(), lambda d: d.neg_()), ('abs_', lambda t: t.abs_(), lambda d: d.abs_()),
                        ('relu_', lambda t: t.relu_(), lambda d: d.relu_()), ('log1p_', lambda t: t.log1p_(), lambda d: d.log1p_()),
                        ('imul', lambda t: t.__imul__(3.0), lambda d: d.mul_(3.0)), ('itruediv', lambda t: t.__itruediv__(2.0), lambda d: d.div_(2.0)),
                        ('nan_to_num_', lambda t: t.nan_to_num_(nan=7., posinf=8., neginf=-8.), lambda d: d.nan_to_num_(nan=7., posinf=8., neginf=-8.))]
                for _h in range(4):
                    (rn1, r1f, _), (inn, inf_, ind), (rn2, r2f, r2d) = rng.choice(reads), rng.choice(inpl), rng.choice(reads)

                    def hist_pt(t, r1f=r1f, inf_=inf_, r2f=r2f):
                        t = t.clone()
                        r1f(t)
                        inf_(t)
                        return r2f(t)

                    def hist_dense(d, ind=ind, r2d=r2d):
                        ind(d)
                        return r2d(d)
                    c = op_case(f'{rn1};{inn};{rn2}', hist_pt, hist_dense, [p])
                    if c:
                        c['tag'] = ['history', inn]
                        c['hasst'] = False
                        cases.append(c)
        # project(paxes, vaxes): onto fresh random target patterns and onto patterns derived from the tensor itself
        for pi_, p in enumerate(pats):
            targets = []
            try:
                stt = PT.gen_pattern(rng, types, default=0.0, start_id=800 + 10 * pi_, dtype='bool' if boolmode else 'float')
                targets.append(('fresh', PT.build(stt, dtype)))
                targets.append(('self', p))
                if p.ndim >= 2 and len(set(repr(t) for t in types)) == 1:      # X(a,b) against X(b,a) is an index-type mismatch unless a and b are the same index type
                    targets.append(('selfT_flat', None))
            except Exception:
                pass
            for tname, tg in targets:
                try:
                    if tname == 'selfT_flat':
                        src, tg = p.flatten(), p.T.flatten()
                    else:
                        src = p
                    cse = {'kind': 'project', 'src': PT.readback(src, ids := {}), 'target': PT.readback(tg, ids), 'out': 'ok',
                           'obs': {'shape': [], 'flat': [], 'dt': ''}, 'tag': ['project', tname]}
                    try:
                        with warnings.catch_warnings():
                            warnings.simplefilter('ignore')
                            r = src.project(tg.paxes, tg.vaxes)
                        cse['obs'] = obs_of(r)
                    except Exception as e:  # noqa
                        cse['out'] = 'raise:' + type(e).__name__
                    cases.append(cse)
                except Exception:
                    pass
        # short programs: a second operation applied to the RESULT of a first one (patterns made by the library)
        firsts = [c for c in cases if c.get('_res') is not None][-60:]
        rng.shuffle(firsts)
        for c1 in firsts[:12]:
            r1 = c1['_res']
            try:
                ops2 = unary_ops(r1, rng)
            except Exception:
                continue
            rng.shuffle(ops2)
            for (name, f, g) in ops2[:5]:
                c2 = op_case(c1['op'] + '>' + name, f, g, [r1])
                if c2:
                    c2['tag'] = ['op2', name]
                    cases.append(c2)
            cases.extend(reshape_cases(r1, r1.to_dense(), rng)[:6])
        pairs = [(a, b) for a in pats for b in pats][: (nper * nper)]
        for a, b in pairs:
            for (name, f, g) in binary_ops(a):
                try:
                    c = op_case(name, f, g, [a, b])
                except _Skip:
                    continue
                if c:
                    if c['out'] == 'raise:_Skip':
                        continue
                    cases.append(c)
        # where(t, c, u): condition patterns are bool tensors over the same typed shape
        if not boolmode and pats:
            conds = []
            for i in range(2):
                stc = PT.gen_pattern(rng, types, default=(rng.random() < 0.5), start_id=500 + 10 * i, dtype='bool')
                try:
                    conds.append(PT.build(stc, torch.bool))
                except Exception:
                    pass
            for t in pats[:2]:
                for u in pats[:2]:
                    if t.dtype != u.dtype:
                        continue
                    for cnd in conds:
                        c = op_case('where', lambda t, c_, u: t.where(c_, u), lambda a, c_, b: a.where(c_, b), [t, cnd, u])
                        if c:
                            cases.append(c)
        cases.extend(drain_hook(seen))
    for c in cases:
        c.pop('_res', None)
    return cases


def run(tier, seed):
    o = Outcome(PID, tier, seed)
    o.assumptions = ['typed patterns: a physical axis is shared only between positions of the same index type (sharing across types is the documented "index type mismatch")',
                     'values are compared after the encoding round(1000 v) with tolerance 1 + 1e-5 relative; NaN/inf exactly',
                     'index types bounded: numel <= 6 per axis, nesting depth 2, <= 3 axes']
    rng = rng_for(seed, 'c06')
    nshapes, nper = (22, 3) if tier == 'quick' else (160, 4)
    shapes = typed_shapes(rng, nshapes)
    with Scratch() as work:
        import time as _t
        ph, t0 = {}, _t.time()
        res = pmap(drive_shape, [(s, seed * 100000 + i, nper) for i, s in enumerate(shapes)], chunksize=1)
        cases = [c for cs in res for c in cs]
        ph['drive_s'] = round(_t.time() - t0)
        # the structure of every PatternedTensor the library builds while the repository's OWN tensor tests run (hook log
        # collected by the pytest plugin harness/tracer_sp.py): the representation invariant must hold for each
        rt = repo_tests_traced(work, ['test/test_indices.py', 'test/test_multi.py', 'test/test_semirings.py'] +
                               ([] if tier == 'quick' else ['test/test_sum_product.py', 'test/test_formats.py']))
        rp = [c for c in rt.get('patterns', []) if c.get('kind') == 'wf']
        if any('error' in c for c in rt.get('patterns', [])):
            raise MachineryFailure('tracer could not read the pattern log: ' + str(rt['patterns'][:1]))
        for c in rp:
            c['tag'] = ['wf', 'repo_tests']
        o.extra['structures_built_during_repo_tests'] = len(rp)
        rd = rt.get('dense', [])
        o.extra['tensors_densified_by_repo_tests_judged'] = len(rd)
        cases = cases + rp + rd
        ph['repo_tests_s'] = round(_t.time() - t0) - ph['drive_s']
        t1 = _t.time()
        verdicts, st, tr, _ = judge_batch(work / 'judge', 'Trace_Tensor', cases, per_shard_min=400, heap='3g')
        ph['judge_s'] = round(_t.time() - t1)
        o.extra['phase_seconds'] = ph
        o.states += st
        o.transitions += tr
        o.absorb_verdicts(cases, verdicts, load_findings())
        kinds, ops = {}, {}
        for c in cases:
            kinds[c['kind']] = kinds.get(c['kind'], 0) + 1
            if c['kind'] == 'op':
                k = c['op'].rstrip('0123456789-')
                ops[k] = ops.get(k, 0) + 1
        o.extra['cases_by_kind'] = kinds
        o.extra['operations_exercised'] = ops
        o.extra['raised_where_allowed'] = sum(1 for c in cases if c['kind'] == 'reshape' and c['out'] != 'ok')
        # the algebra of axis terms behind all of these operations (unify / antiunify / stride / index), on every pair of
        # typed axis lists TLC enumerates for a small catalogue of shapes (spec/AxisAlg.tla)
        from . import c06_axes
        t2 = _t.time()
        c06_axes.run_part(o, tier, seed, work)
        ph['axis_algebra_s'] = round(_t.time() - t2)
        o.sample(next(c for c in cases if c['kind'] == 'dense' and len(c['st']['vs']) >= 2))
    return o


def replay(path, seed):
    return run('quick', seed)
