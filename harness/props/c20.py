"""C20 -- domains and factors index consistently and reject ill-shaped bindings.

gen   : TLC (MC_Domains) enumerates every finite domain over a 3-value universe in every
        order, every range domain, every pair, every factor spec with right and wrong
        weight shapes (R3: numbering is a bijection in the model); the FGG heap machine
        (MC_HRG, WithInterp) enumerates every label x factor pairing incl. re-binding.
drive : FiniteDomain / RangeDomain / FiniteFactor / fgg.shape on the real classes, domains
        given as list, tuple and one-shot iterator, weights as nested list, Tensor,
        PatternedTensor; binding calls replayed on a real FGG.
judge : Trace_Domains and Trace_Graphs (TLC).
"""
from __future__ import annotations
import itertools, json
from ..common import *
from . import c16
from ..graphsdrv import Session

PID = 'C20'
PY = {1: 'a', 2: ('b', 1), 3: 7}       # model value -> arbitrary hashable python value
PROBE = [0, 1, 2, 3, 4]                 # model values probed (0 and 4 are never members)
PYP = {0: 'zz', 4: ('q',), **PY}


def mkdom(d, form='list'):
    from fggs.domains import FiniteDomain, RangeDomain
    if d['cls'] == 'range':
        return RangeDomain(len(d['vals']))
    vals = [PY[v] for v in d['vals']]
    if form == 'tuple':
        return FiniteDomain(tuple(vals))
    if form == 'iter':
        return FiniteDomain(iter(vals))
    if form == 'gen':
        return FiniteDomain(v for v in vals)
    return FiniteDomain(vals)


def py_of(d, v):
    return v if d['cls'] == 'range' else PYP[v]


def drive_dom(c, form):
    d = c['d']
    obs = {'out': 'ok', 'size': -1, 'num': [], 'den': [], 'con': []}
    try:
        D = mkdom(d, form)
        obs['size'] = D.size()
        for v in PROBE:
            if d['cls'] == 'range' and v not in d['vals']:
                pass
            try:
                n = D.numberize(py_of(d, v))
                obs['num'].append([v, int(n)])
            except Exception:
                obs['num'].append([v, -1])
            obs['con'].append([v, bool(D.contains(py_of(d, v)))])
        inv = {PY[k]: k for k in PY}
        for i in range(len(d['vals'])):
            x = D.denumberize(i)
            obs['den'].append([i, x if d['cls'] == 'range' else inv.get(x, -1)])
    except Exception as e:  # noqa
        obs['out'] = 'raise:' + type(e).__name__
    return {'k': 'dom', 'd': d, 'obs': obs, 'tag': ['dom', d['cls'], form]}


def drive_dom_hist(d, d2, how):
    """FiniteDomain(list), then the caller changes the list (append / pop / reverse / clear): d2 is what the list spells now"""
    from fggs.domains import FiniteDomain
    vals = [PY[v] for v in d['vals']]
    D = FiniteDomain(vals)
    vals[:] = [PY[v] for v in d2['vals']]         # in-place change of the caller's list
    c = drive_dom({'d': d}, 'list')               # shape of the record only; observations are retaken below
    obs = {'out': 'ok', 'size': -1, 'num': [], 'den': [], 'con': []}
    try:
        obs['size'] = D.size()
        for v in PROBE:
            try:
                obs['num'].append([v, int(D.numberize(PYP[v]))])
            except Exception:
                obs['num'].append([v, -1])
            obs['con'].append([v, bool(D.contains(PYP[v]))])
        inv = {PY[k]: k for k in PY}
        for i in range(max(0, obs['size'])):
            try:
                obs['den'].append([i, inv.get(D.denumberize(i), -1)])
            except Exception:
                obs['den'].append([i, -2])
    except Exception as e:  # noqa
        obs['out'] = 'raise:' + type(e).__name__
    return {'k': 'dom_hist', 'd': d, 'd2': d2, 'obs': obs, 'tag': ['dom_hist', how]}


def drive_bind(c, host):
    """add_factor on a fresh FGG / FactorGraph in which node labels A and B are bound"""
    import fggs, torch
    from fggs.factors import FiniteFactor
    r = dict(c, out='ok', shape=[], second_rejected=True, bound_after=False, tag=['bind', host])
    try:
        g = fggs.FGG('S') if host == 'fgg' else fggs.FactorGraph()
        nl = {'A': fggs.NodeLabel('A'), 'B': fggs.NodeLabel('B')}
        g.add_domain(nl['A'], mkdom(c['a']))
        g.add_domain(nl['B'], mkdom(c['b'], 'tuple'))
        el = fggs.EdgeLabel('t', [nl[x] for x in c['type']], is_terminal=True)
        fd = [mkdom(d) for d in c['fdoms']]
        fac = FiniteFactor(fd, torch.zeros([d.size() for d in fd]))
    except Exception as e:  # noqa
        raise MachineryFailure(f'bind case could not be set up: {e!r}')
    try:
        g.add_factor(el, fac)
        r['shape'] = [int(x) for x in g.shape(el)]
        try:
            g.add_factor(el, fac)
            r['second_rejected'] = False
        except ValueError:
            pass
    except Exception as e:  # noqa
        r['out'] = 'raise:' + type(e).__name__
        r['bound_after'] = 't' in g.factors or g.has_edge_label_name('t')
    return r


def drive_pair(c):
    r = {'k': 'pair', 'd1': c['d1'], 'd2': c['d2'], 'out': 'ok', 'eq': False, 'ne': True, 'tag': ['pair']}
    try:
        a, b = mkdom(c['d1']), mkdom(c['d2'], 'tuple')
        r['eq'], r['ne'] = bool(a == b), bool(a != b)
    except Exception as e:  # noqa
        r['out'] = 'raise:' + type(e).__name__
    return r


def weights_of(shape, form, base=1):
    import torch
    from fggs.indices import PatternedTensor
    n = 1
    for s in shape:
        n *= s
    t = torch.arange(base, base + n, dtype=torch.get_default_dtype()).reshape(shape)
    if form == 'list':
        return t.tolist()
    if form == 'tensor':
        return t
    return PatternedTensor(t)


def drive_fac(c, form):
    from fggs.factors import FiniteFactor
    r = {'k': 'fac', 'doms': c['doms'], 'wshape': c['wshape'], 'out': 'ok', 'arity': -1, 'tag': ['fac', form]}
    try:
        f = FiniteFactor([mkdom(d) for d in c['doms']], weights_of(c['wshape'], form))
        r['arity'] = f.arity
    except Exception as e:  # noqa
        r['out'] = 'raise:' + type(e).__name__
    return r


def drive_apply(doms, form):
    from fggs.factors import FiniteFactor
    shape = [len(d['vals']) for d in doms]
    n = 1
    for s in shape:
        n *= s
    r = {'k': 'apply', 'doms': doms, 'w': list(range(1, n + 1)), 'app': [], 'out': 'ok', 'tag': ['apply', form]}
    try:
        f = FiniteFactor([mkdom(d) for d in doms], weights_of(shape, form))
        for vals in itertools.product(*[d['vals'] for d in doms]):
            x = f.apply([py_of(d, v) for d, v in zip(doms, vals)])
            r['app'].append([list(vals), snap_int(float(x))])
    except Exception as e:  # noqa
        r['out'] = 'raise:' + type(e).__name__
    return r


def drive_apply_hist(doms, form, how):
    """apply, then the weights are replaced (assignment) or updated in place, then apply again: apply reads the
    weights the factor has NOW.  Two `apply` records, one per phase."""
    import torch
    from fggs.factors import FiniteFactor
    shape = [len(d['vals']) for d in doms]
    n = 1
    for s in shape:
        n *= s
    w2 = [3 * (n - i) + 1 for i in range(n)] if how == 'assign' else [2 * (i + 1) for i in range(n)]
    rs = [{'k': 'apply', 'doms': doms, 'w': list(range(1, n + 1)), 'app': [], 'out': 'ok', 'tag': ['apply', form, 'hist_before']},
          {'k': 'apply', 'doms': doms, 'w': w2, 'app': [], 'out': 'ok', 'tag': ['apply', form, 'hist_after_' + how]}]
    try:
        f = FiniteFactor([mkdom(d) for d in doms], weights_of(shape, form))
        for phase, r in enumerate(rs):
            if phase == 1:
                if how == 'assign':
                    t = torch.tensor(w2, dtype=torch.get_default_dtype()).reshape(shape)
                    f.weights = t.tolist() if form == 'list' and not (0 in shape and len(shape) > 1) else t
                else:
                    f.weights.physical.mul_(2)
            for vals in itertools.product(*[d['vals'] for d in doms]):
                x = f.apply([py_of(d, v) for d, v in zip(doms, vals)])
                r['app'].append([list(vals), snap_int(float(x))])
    except Exception as e:  # noqa
        rs[1]['out'] = 'raise:' + type(e).__name__
    return rs


def drive_faceq_near(doms, rng, dtype_name):
    """two factors over the same domains whose weights differ by one unit of 2^-20 in one entry (or not at all):
    equality is by the exact weights.  Weights are recorded in units of 2^-20."""
    import torch
    from fggs.factors import FiniteFactor
    from fggs.indices import PatternedTensor
    sh = [len(d['vals']) for d in doms]
    n = __import__('math').prod(sh)
    U = 1 << 20
    w1 = [rng.choice([0, 1, 5]) * U for _ in range(n)]
    w2 = list(w1)
    differ = n > 0 and rng.random() < 0.7
    if differ:
        w2[rng.randrange(n)] += 1
    dt = getattr(torch, dtype_name)
    r = {'k': 'faceq', 'f1': {'doms': doms, 'w': w1}, 'f2': {'doms': doms, 'w': w2}, 'eq': False, 'out': 'ok', 'tag': ['faceq', 'near', dtype_name]}
    try:
        mk = lambda w, pat: (PatternedTensor if pat else (lambda t: t))(torch.tensor([x / U for x in w], dtype=torch.float64).to(dt).reshape(sh))
        f1 = FiniteFactor([mkdom(d) for d in doms], mk(w1, rng.random() < 0.5))
        f2 = FiniteFactor([mkdom(d, 'tuple') for d in doms], mk(w2, rng.random() < 0.5))
        r['eq'] = bool(f1 == f2)
    except Exception as e:  # noqa
        r['out'] = 'raise:' + type(e).__name__
    return r


def drive_apply_wide(doms, dtname):
    """weights given as a plain Tensor of a dtype WIDER than the default one (float64 / int64 while the default is
    float32), with values the default dtype cannot hold: apply returns the weight that was given.  Recorded in units of
    2^-30 (float64: 1 + (j+1) 2^-30) or as integers (int64: 2^24 + 1 + j)."""
    import torch
    from fggs.factors import FiniteFactor
    shape = [len(d['vals']) for d in doms]
    n = 1
    for s_ in shape:
        n *= s_
    if dtname == 'float64':
        units = [(1 << 30) + j + 1 for j in range(n)]
        t = torch.tensor([u / (1 << 30) for u in units], dtype=torch.float64).reshape(shape)
        back = lambda x: int(round(float(x) * (1 << 30))) if float(x) * (1 << 30) == round(float(x) * (1 << 30)) else NONINT
    else:
        units = [(1 << 24) + 1 + j for j in range(n)]
        t = torch.tensor(units, dtype=torch.int64).reshape(shape)
        back = lambda x: int(x) if float(x) == int(x) else NONINT
    r = {'k': 'apply', 'doms': doms, 'w': units, 'app': [], 'out': 'ok', 'tag': ['apply', 'tensor_' + dtname]}
    try:
        f = FiniteFactor([mkdom(d) for d in doms], t)
        for vals in itertools.product(*[d['vals'] for d in doms]):
            x = f.apply([py_of(d, v) for d, v in zip(doms, vals)])
            r['app'].append([list(vals), back(x.item() if hasattr(x, 'item') else x)])
    except Exception as e:  # noqa
        r['out'] = 'raise:' + type(e).__name__
    return r


def drive_faceq_views(d, rng):
    """two factors over (d, d) whose weights are VIEWS OF ONE TENSOR laid out differently (w and w.t(), a patterned tensor
    and its transpose, a tensor and a clone): equality is by the dense weights, not by where they are stored"""
    import torch
    from fggs.factors import FiniteFactor
    from fggs.indices import PatternedTensor
    n = len(d['vals'])
    w = torch.tensor([[float(rng.choice([1, 2, 3, 5])) for _ in range(n)] for _ in range(n)], dtype=torch.get_default_dtype())
    how = rng.choice(['t', 'pt_T', 'clone', 'same'])
    w2 = {'t': lambda: w.t(), 'pt_T': lambda: PatternedTensor(w).T, 'clone': lambda: w.clone(), 'same': lambda: w}[how]()
    dense2 = (w2.to_dense() if isinstance(w2, PatternedTensor) else w2)
    r = {'k': 'faceq', 'f1': {'doms': [d, d], 'w': [snap_int(float(x)) for x in w.reshape(-1).tolist()]},
         'f2': {'doms': [d, d], 'w': [snap_int(float(x)) for x in dense2.reshape(-1).tolist()]}, 'eq': False, 'out': 'ok', 'tag': ['faceq', 'views', how]}
    try:
        f1 = FiniteFactor([mkdom(d), mkdom(d)], w)
        f2 = FiniteFactor([mkdom(d, 'tuple'), mkdom(d, 'tuple')], w2)
        r['eq'] = bool(f1 == f2) and not bool(f1 != f2)
    except Exception as e:  # noqa
        r['out'] = 'raise:' + type(e).__name__
    return r


def drive_faceq(doms1, base1, doms2, base2, form1, form2):
    from fggs.factors import FiniteFactor
    sh1, sh2 = [len(d['vals']) for d in doms1], [len(d['vals']) for d in doms2]
    num = lambda sh: __import__('math').prod(sh)
    r = {'k': 'faceq', 'f1': {'doms': doms1, 'w': list(range(base1, base1 + num(sh1)))},
         'f2': {'doms': doms2, 'w': list(range(base2, base2 + num(sh2)))}, 'eq': False, 'out': 'ok', 'tag': ['faceq', form1, form2]}
    # a nested list cannot express a shape such as (0, 2)
    if 0 in sh1 and len(sh1) > 1 and form1 == 'list':
        form1 = 'tensor'
    if 0 in sh2 and len(sh2) > 1 and form2 == 'list':
        form2 = 'tensor'
    try:
        f1 = FiniteFactor([mkdom(d) for d in doms1], weights_of(sh1, form1, base1))
        f2 = FiniteFactor([mkdom(d, 'tuple') for d in doms2], weights_of(sh2, form2, base2))
        r['eq'] = bool(f1 == f2)
    except Exception as e:  # noqa
        r['out'] = 'raise:' + type(e).__name__
    return r


def drive_shape(doms, how):
    import fggs
    r = {'k': 'shape', 'doms': doms, 'shape': [], 'out': 'ok', 'tag': ['shape', how]}
    try:
        g = fggs.FGG('S')
        nls = [fggs.NodeLabel(f'L{i}') for i in range(len(doms))]
        for nl, d in zip(nls, doms):
            g.add_domain(nl, mkdom(d))
        el = fggs.EdgeLabel('t', nls, is_terminal=True)
        nodes = [fggs.Node(nl) for nl in nls]
        arg = {'label': el, 'edge': fggs.Edge(el, nodes), 'nodes': nodes, 'nodelabels': nls}[how]
        r['shape'] = [int(x) for x in g.shape(arg)]
    except Exception as e:  # noqa
        r['out'] = 'raise:' + type(e).__name__
    return r


def run(tier, seed):
    o = Outcome(PID, tier, seed)
    o.assumptions = ['domain values are drawn from a 3-value universe of hashable python values (str, tuple, int)',
                     'binding clause judged on the FGG heap machine of C16 (spec/MC_HRG.tla, WithInterp)']
    with Scratch() as work:
        cfg = 'INIT Init\nNEXT Next\nCONSTANT WithBind = TRUE\nINVARIANT NumberingIsBijection\nINVARIANT Dump\nCHECK_DEADLOCK FALSE\n'
        r = run_tlc(work / 'gen', 'MC_Domains', cfg, workers=1)
        o.add_tlc(r)
        specs = [c for c in r.printed if isinstance(c, dict) and 'k' in c]
        cases = []
        doms = [c['d'] for c in specs if c['k'] == 'dom']
        for c in specs:
            if c['k'] == 'dom':
                for form in ('list', 'tuple', 'iter', 'gen'):
                    cases.append(drive_dom(c, form))
            elif c['k'] == 'pair':
                cases.append(drive_pair(c))
            elif c['k'] == 'bind':
                cases.append(drive_bind(c, 'fgg' if len(cases) % 2 else 'fgraph'))
            else:
                for form in ('list', 'tensor', 'patterned'):
                    if form == 'list' and 0 in c['wshape'] and len(c['wshape']) > 1:
                        continue  # a nested list cannot express a shape like (0, 2)
                    cases.append(drive_fac(c, form))
        fin = [d for d in doms if d['cls'] == 'finite']
        for d in fin:
            for d2 in fin:
                if d2['vals'] != d['vals'] and (len(d2['vals']) != len(d['vals']) or sorted(d2['vals']) == sorted(d['vals'])) \
                        and abs(len(d2['vals']) - len(d['vals'])) <= 1:
                    cases.append(drive_dom_hist(d, d2, 'resize' if len(d2['vals']) != len(d['vals']) else 'reorder'))
        small = [d for d in doms if d['cls'] == 'range' or d['vals'] in ([], [1], [2, 1], [1, 2, 3], [3, 1])]
        for k in (0, 1, 2):
            for ds in itertools.product(small, repeat=k):
                for form in ('list', 'tensor', 'patterned'):
                    if form == 'list' and any(len(d['vals']) == 0 for d in ds) and k > 1:
                        continue
                    cases.append(drive_apply(list(ds), form))
                for how in ('label', 'edge', 'nodes', 'nodelabels'):
                    if how in ('nodes', 'nodelabels') and k == 0:
                        continue
                    cases.append(drive_shape(list(ds), how))
        rng = rng_for(seed, 'c20')
        pool = [list(ds) for k in (0, 1, 2) for ds in itertools.product(small, repeat=k)]
        for _ in range(400 if tier == 'quick' else 4000):
            a = rng.choice(pool)
            b = a if rng.random() < 0.5 else rng.choice(pool)
            cases.append(drive_faceq(a, rng.choice([1, 1, 2]), b, rng.choice([1, 1, 2]),
                                     rng.choice(['list', 'tensor', 'patterned']), rng.choice(['list', 'tensor', 'patterned'])))
        nonempty = [ds for ds in pool if ds and all(len(d['vals']) > 0 for d in ds)]
        for ds in nonempty:
            for form in ('list', 'tensor', 'patterned'):
                for how in ('assign', 'inplace'):
                    cases.extend(drive_apply_hist(ds, form, how))
        for ds in nonempty:
            for dtn in ('float64', 'int64'):
                cases.append(drive_apply_wide(ds, dtn))
        for j in range(150 if tier == 'quick' else 1500):
            cases.append(drive_faceq_near(rng.choice(nonempty + [[]]), rng, 'float32' if j % 2 else 'float64'))
        sq = [d for d in small if len(d['vals']) >= 2]
        for j in range(80 if tier == 'quick' else 800):
            cases.append(drive_faceq_views(rng.choice(sq), rng))
        verdicts, st, tr, _ = judge_batch(work / 'judge', 'Trace_Domains', cases, per_shard_min=500)
        o.states += st
        o.transitions += tr
        o.absorb_verdicts(cases, verdicts, load_findings(), part='domains')
        kinds = {}
        for c in cases:
            kinds[c['k']] = kinds.get(c['k'], 0) + 1
        o.extra['cases_by_kind'] = kinds
        o.sample(next(c for c in cases if c['k'] == 'apply' and len(c['doms']) == 2))
        # binding clause on the FGG heap machine
        d = 4 if tier == 'quick' else 5
        trans = c16.tlc_dump(work / 'fgg', 'MC_HRG', c16.FGG_C.format(d=d), o)
        states, events = c16.replay_transitions(trans, lambda: Session('hrg'), o)
        # only the clauses C20 states are taken from this judge
        v = c16.judge(work / 'fgg_j', 'Trace_Graphs', states, events, o, 'binding', 'hrg')
        o.violations = [x for x in o.violations if x['part'] != 'binding' or str(x['clause']).startswith('Bind')
                        or x['clause'] in ('FailureAtomic', 'OneDomainPerNodeLabel', 'OneFactorPerEdgeLabel', 'FactorArityMatchesLabel',
                                           'FactorDomainsMatchLabel', 'FactorShapeIsDomainSizes', 'FactorsOnlyOnTerminals')]
        o.extra['binding_calls'] = sum(1 for e in events if e['call']['op'] in ('add_factor', 'add_domain'))
        o.extra['binding_calls_ok'] = sum(1 for e in events if e['call']['op'] in ('add_factor', 'add_domain') and e['out'] == 'ok')
        o.exhaustive = True
    return o


def replay(path, seed):
    return run('quick', seed)
