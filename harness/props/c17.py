"""C17 -- conjunction generates exactly the paired derivations.

gen   : seeded pairs of HRGs over shared rule skeletons (shared node ids and nonterminal edge
        ids; several rules per skeleton; skeletons present in one grammar only; shared terminal
        labels; name clashes X+"Y,Z" vs "X,Y"+Z; a terminal literally named "<X,Y>"; g with g;
        implicit ids through shared Node/Edge objects; genuine terminal conflicts).
drive : fggs.conjoin_hrgs on the real grammars.
judge : Trace_Conjoin (TLC): exactly one rule per conjoinable pair with nodes/externals of the
        pair, one paired nonterminal edge per shared edge, the terminal edges of both; paired
        names injective and fresh; derivation counts to depth 3 equal paired-derivation counts;
        ValueError exactly on terminal conflicts.
"""
from __future__ import annotations
import json, warnings
from ..common import *

PID = 'C17'
TERMS = {'a': ['T'], 'b': ['T', 'T'], 'c': []}


def gen_pair(rng, mode):
    nskel = rng.randint(1, 3)
    skels = []
    for s in range(nskel):
        nn = rng.randint(2, 3) if mode == 'ext2' else rng.randint(1, 3)
        nodes = [f's{s}n{j}' for j in range(nn)]
        la = rng.choice([2, 2, 0]) if mode == 'ext2' else rng.choice([0, 0, 1])
        ext = rng.sample(nodes, la)
        edges = []
        for k in range(rng.randint(0, 2)):
            ar = rng.choice([0, 1, 2]) if mode == 'ext2' else rng.choice([0, 1])
            att = rng.sample(nodes, ar)
            if edges and rng.random() < 0.4:
                att = list(edges[-1]['att'])          # parallel nonterminal edges on the same node tuple
            edges.append({'id': f's{s}E{k}', 'att': att})
        skels.append({'nodes': nodes, 'ext': ext, 'edges': edges})
    if mode == 'clash':
        names = [{'S': 0, 'X': 1, 'X,Y': 1}, {'S': 0, 'Y,Z': 1, 'Z': 1}]
    elif mode == 'clash3':
        # three different pairs share the base name <X,Y,Z,W>
        names = [{'S': 0, 'X': 1, 'X,Y': 1, 'X,Y,Z': 1}, {'S': 0, 'Y,Z,W': 1, 'Z,W': 1, 'W': 1}]
    elif mode == 'ext2':
        # binary nonterminals: rules with two external nodes, listed in either order by either grammar
        names = [{'S': 0, 'X': 1, 'R': 2, 'R2': 2}, {'S': 0, 'Y': 1, 'Q': 2}]
    elif mode == 'conflict_hidden':
        # harmless name clashes (nonterminals a, c of the first grammar vs terminals a, c of the second) come EARLIER in the
        # first grammar's label order than a genuine conflict on the terminal b
        names = [{'S': 0, 'a': 1, 'c': 0}, {'S': 0, 'Y': 1, 'V': 0}]
    elif mode == 'nt_named_like_term':
        # a NONTERMINAL of the first grammar is named like a TERMINAL of the second (legal: only two terminals can conflict)
        names = [{'S': 0, 'a': 1, 'c': 0}, {'S': 0, 'Y': 1, 'V': 0}]
    else:
        names = [{'S': 0, 'X': 1, 'W': 0}, {'S': 0, 'Y': 1, 'V': 0}]
    tcount = [0]

    def mk(gi):
        els = {n: {'t': False, 'type': ['T'] * a} for n, a in names[gi].items()}
        rules = []
        for si, sk in enumerate(skels):
            if rng.random() < 0.2 and si > 0:
                continue            # skeleton present in one grammar only
            for rep in range(rng.randint(1, 2)):
                lhs_c = [n for n, a in names[gi].items() if a == len(sk['ext'])]
                if not lhs_c:
                    continue
                lhs = 'S' if (si == 0 and rep == 0 and len(sk['ext']) == 0) else rng.choice(lhs_c)
                edges = []
                ok = True
                for e in sk['edges']:
                    c = [n for n, a in names[gi].items() if a == len(e['att'])]
                    if not c:
                        ok = False
                        break
                    edges.append({'id': e['id'], 'lab': rng.choice(c), 'att': list(e['att'])})
                if not ok:
                    continue
                for k in range(rng.randint(0, 2)):
                    t = rng.choice(list(TERMS))
                    if t in names[gi] or len(TERMS[t]) > len(sk['nodes']):
                        continue
                    typ = TERMS[t]
                    if mode == 'conflict' and gi == 1 and t == 'a':
                        typ = ['T', 'T']
                    if mode == 'conflict_hidden' and gi == 1 and t == 'b':
                        typ = ['T']
                    if len(typ) > len(sk['nodes']):
                        continue
                    els[t] = {'t': True, 'type': list(typ)}
                    tcount[0] += 1
                    tid = f't{si}_{k}' if mode == 'sharedterm' else f'g{gi}t{tcount[0]}'
                    edges.append({'id': tid, 'lab': t, 'att': rng.sample(sk['nodes'], len(typ))})
                rext = list(sk['ext'])
                if mode == 'ext2' and len(rext) == 2 and rng.random() < 0.4:
                    rext.reverse()          # same external NODES, other ORDER: not conjoinable with the unreversed twin
                # the nodes of a rule are a SET: each grammar may have entered them in its own order
                norder = list(sk['nodes'])
                if rng.random() < 0.5:
                    rng.shuffle(norder)
                rules.append({'lhs': lhs, 'nodes': [{'id': n, 'l': 'T'} for n in norder], 'edges': edges, 'ext': rext})
        if mode in ('clash', 'clash3') and gi == 0:
            els['<X,Y>'] = {'t': True, 'type': []}     # a terminal literally named like a pair
        return {'els': els, 'start': 'S', 'rules': rules}
    g1 = mk(0)
    if mode == 'self_implicit':
        # implicit ids are object identities: two edges with different labels are different objects,
        # so in the abstract grammar they must carry different ids
        for r in g1['rules']:
            for e in r['edges']:
                e['id'] = e['id'] + '#' + e['lab']
    g2 = g1 if mode in ('self', 'self_implicit') else mk(1)
    # a terminal name used in both must have ONE type unless we want a conflict
    if mode not in ('conflict', 'conflict_hidden'):
        for t in TERMS:
            if t in g1['els'] and t in g2['els'] and g1['els'][t]['t'] and g2['els'][t]['t']:
                g2['els'][t] = g1['els'][t]
    return g1, g2


def build(cg, implicit=False, cache=None, rules_out=None):
    import fggs
    nl = fggs.NodeLabel('T')
    el = {n: fggs.EdgeLabel(n, [nl] * len(d['type']), is_terminal=d['t'], is_nonterminal=not d['t']) for n, d in cg['els'].items()}
    h = fggs.HRG(el[cg['start']])
    for l in el.values():
        h.add_edge_label(l)
    cache = cache if cache is not None else {}
    for r in cg['rules']:
        rhs = fggs.Graph()
        nodes = {}
        for n in r['nodes']:
            if implicit:
                v = cache.setdefault(('n', n['id']), fggs.Node(nl))
            else:
                v = fggs.Node(nl, id=n['id'])
            nodes[n['id']] = v
            rhs.add_node(v)
        for e in r['edges']:
            att = [nodes[a] for a in e['att']]
            if implicit:
                key = ('e', e['id'], e['lab'], tuple(e['att']))
                ed = cache.setdefault(key, fggs.Edge(el[e['lab']], att))
            else:
                ed = fggs.Edge(el[e['lab']], att, id=e['id'])
            rhs.add_edge(ed)
        rhs.ext = [nodes[a] for a in r['ext']]
        rule = fggs.HRGRule(el[r['lhs']], rhs)
        h.add_rule(rule)
        if rules_out is not None:
            rules_out.append(rule)
    return h, cache


def project(h, cache):
    inv = {}
    for k, o in (cache or {}).items():
        inv[o.id] = k[1]
    nid = lambda v: v.id if isinstance(v.id, str) else inv.get(v.id, f'?{v.id}')
    return {'els': {l.name: {'t': bool(l.is_terminal), 'type': [x.name for x in l.type]} for l in h.edge_labels()},
            'start': h.start.name,
            'rules': [{'lhs': r.lhs.name, 'nodes': [{'id': nid(v), 'l': v.label.name} for v in r.rhs.nodes()],
                       'edges': [{'id': nid(e), 'lab': e.label.name, 'att': [nid(v) for v in e.nodes]} for e in r.rhs.edges()],
                       'ext': [nid(v) for v in r.rhs.ext]} for r in h.all_rules()]}


def drive(args):
    g1, g2, mode = args
    import fggs
    from fggs import conjunction
    c = {'g1': g1, 'g2': g2, 'out': 'ok', 'h': {'els': {}, 'start': '', 'rules': []}, 'hint': [], 'tag': [mode]}
    try:
        implicit = mode == 'self_implicit'
        rules1 = []
        h1, cache = build(g1, implicit, rules_out=rules1)
        h2 = h1 if mode in ('self', 'self_implicit') else build(g2, implicit, cache)[0]
        if mode == 'history_mutate' and rules1:
            # a HISTORY: conjoin, edit a right-hand side of the first grammar in place, conjoin again (judged) --
            # whatever the first call remembered about the rules must not outlive the edit
            import copy
            try:
                fggs.conjoin_hrgs(h1, h2)
            except Exception:
                pass
            rng = rng_for(0, 'c17hist' + json.dumps(g1, sort_keys=True)[:200])
            ri = rng.randrange(len(rules1))
            g1 = copy.deepcopy(g1)
            c['g1'] = g1
            nl = fggs.NodeLabel('T')
            if rng.random() < 0.5:
                rules1[ri].rhs.add_node(fggs.Node(nl, id='zz'))
                g1['rules'][ri]['nodes'].append({'id': 'zz', 'l': 'T'})
            else:
                nts0 = [n for n, d in g1['els'].items() if not d['t'] and d['type'] == []]
                lab = rng.choice(nts0)
                rules1[ri].rhs.add_edge(fggs.Edge(h1.get_edge_label(lab), [], id='zzE'))
                g1['rules'][ri]['edges'].append({'id': 'zzE', 'lab': lab, 'att': []})
    except Exception as e:  # noqa
        raise MachineryFailure(f'building conjunction inputs failed: {e!r}')
    try:
        h = fggs.conjoin_hrgs(h1, h2)
        c['h'] = project(h, cache)
    except Exception as e:  # noqa
        c['out'] = 'raise:' + type(e).__name__
        c['err'] = str(e)[:200]
    try:
        m = conjunction.nonterminal_pairs(h1, h2)
        c['hint'] = [[a.name, b.name, v.name] for (a, b), v in m.items()]
    except Exception:
        pass
    return c


def run(tier, seed):
    o = Outcome(PID, tier, seed)
    o.assumptions = ['single node label; nonterminals of arity 0/1 (0/1/2 with two external nodes in either order in mode ext2); up to 3 shared skeletons with up to 2 rules each per grammar',
                     'the naming of nonterminal pairs is read from fggs.conjunction.nonterminal_pairs as a hint that TLC checks; without a working hint TLC searches all namings (up to 4 pairs)']
    rng = rng_for(seed, 'c17')
    n = 240 if tier == 'quick' else 3000
    modes = ['plain', 'clash3', 'clash', 'sharedterm', 'self', 'self_implicit', 'conflict', 'ext2', 'nt_named_like_term', 'history_mutate', 'conflict_hidden']
    jobs = []
    for i in range(n):
        mode = modes[i % len(modes)]
        g1, g2 = gen_pair(rng, 'plain' if mode == 'history_mutate' else mode)
        jobs.append((g1, g2, mode))
    with Scratch() as work:
        cases = pmap(drive, jobs)
        verdicts, st, tr, _ = judge_batch(work / 'judge', 'Trace_Conjoin', cases, per_shard_min=30)
        o.states += st
        o.transitions += tr
        o.absorb_verdicts(cases, verdicts, load_findings())
        bym = {}
        for c in cases:
            k = c['tag'][0] + ':' + c['out'].split(':')[0]
            bym[k] = bym.get(k, 0) + 1
        o.extra['cases_by_mode_and_outcome'] = bym
        o.extra['conjoined_rules_total'] = sum(len(c['h']['rules']) for c in cases)
        o.sample(max(cases, key=lambda c: len(c['h']['rules'])))
    return o


def replay(path, seed):
    rec = json.loads(open(path).read())
    c = rec['case']
    o = Outcome(PID, 'quick', seed)
    c2 = drive((c['g1'], c['g2'], c['tag'][0]))
    with Scratch() as work:
        verdicts, st, tr, _ = judge_batch(work, 'Trace_Conjoin', [c2])
        o.states, o.transitions = st, tr
        o.absorb_verdicts([c2], verdicts, load_findings())
        o.sample(c2)
    return o
