"""C03 -- gradients of the sum-product are the true derivatives.

gen   : non-recursive seeded grammars with small natural weights (shared factors, factors that
        cannot reach the start symbol, zero weights, start tensors with cotangents in {0,1,2});
        recursive grammars on the dyadic grid with a TLC-proved least fixed point.
drive : z = sum_product(...).to_dense(); (z * cotangent).sum().backward(); factor.weights.grad for
        every factor (requires_grad_ set after construction, as bin/sum_product.py does), Real and
        Log semirings, three methods.
judge : Trace_Grad (TLC): the formal derivative of the sum-product polynomial by DUAL NUMBERS
        (Semantics.tla), exactly (Real), as an exact rational w dZ/dw / Z (Log); for recursive
        grammars an enclosure of the derivative of the least fixed point (Kleene from below with
        down-rounding, post-fixed-point test with up-rounding).
"""
from __future__ import annotations
import json, math, warnings
from ..common import *
from .. import ag as AG

PID = 'C03'
METHODS = ('fixed-point', 'newton', 'linear')


def grads_of(g, a, table, proj):
    """gradient per factor entry; entries of a patterned weight tensor that are not physically backed are
    not parameters (PatternedTensor.grad marks them nan by design): they get the vacuous interval"""
    import torch
    from fggs.indices import PatternedTensor
    out = {}
    for t in AG.terms_of(a):
        w = g.factors[t].weights
        gr = w.grad
        n = len(a[table][t])
        if gr is None:
            out[t] = [[ABSENT, ABSENT]] * n
        else:
            backed = PatternedTensor(torch.ones_like(w.physical), w.paxes, w.vaxes, 0.).to_dense().reshape(-1).tolist()
            out[t] = [proj(float(x)) if b else [NINF, INF] for x, b in zip(gr.to_dense().reshape(-1).tolist(), backed)]
    return out


def one(a, kind, method, dtype, cot, fx=False, tol=1e-5):
    import torch, fggs
    run = {'kind': kind, 'out': 'ok', 'grads': {}, 'tag': [kind, method, str(dtype).replace('torch.', '')]}
    try:
        if fx:
            g, _ = AG.build_fgg_fx(a, kind, dtype)
        else:
            g, _ = AG.build_fgg(a, kind, dtype, start_last=(len(cot) % 2 == 0 and method == 'newton'))
        for f in g.factors.values():
            f.weights.requires_grad_()
        with warnings.catch_warnings():
            warnings.simplefilter('ignore')
            z = fggs.sum_product(g, method=method, semiring=AG.semiring_for(kind, dtype), tol=tol, kmax=2000).to_dense()
            c = torch.tensor(cot, dtype=dtype).reshape(z.shape)
            # entries with cotangent 0 do not enter the loss (also keeps -inf * 0 out of it)
            loss = (z[c != 0] * c[c != 0]).sum() if c.numel() else z.sum() * 0
            if loss.requires_grad:
                loss.backward()
        if fx:
            proj = lambda v: [NAN, NAN] if math.isnan(v) else ([INF, INF] if math.isinf(v) else [math.floor(v * AG.FXS), math.ceil(v * AG.FXS)])
            run['grads'] = grads_of(g, a, 'wfx', proj)
        elif kind == 'real':
            run['grads'] = grads_of(g, a, 'w', lambda v: [snap_int(v), snap_int(v)])
        else:
            enc = lambda v: NAN if math.isnan(v) else (INF if v == math.inf else (NINF if v == -math.inf else (int(round(v * 10000)) if abs(v) < 90 else NONINT)))
            run['grads'] = grads_of(g, a, 'w', lambda v: [enc(v), enc(v)])
    except Exception as e:  # noqa
        run['out'] = 'raise:' + type(e).__name__
        run['err'] = str(e)[:200]
    return run


def drive_nat(args):
    import torch
    seed, i, tier = args
    rng = rng_for(seed, f'c03n-{i}')
    a = AG.gen_ag(rng, n_nts=(1, 3), max_rules=2, max_nodes=3, max_edges=3, recursion='none', weights='small', p_zero=0.15,
                  dom_sizes=(1, 2), start_arity=(0, 0, 1, 1), value_cap=1500, p_norules=0.1, allow_unused_terms=(i % 5 == 0))
    n = AG.numel(AG.shape_of(a, a['start']))
    if i % 4 == 3:
        a = AG.add_reversed_twin(rng, a, value_cap=1500)
    if i % 8 == 5:
        a = AG.gen_factor_at_two_levels(rng)       # (edge and rule order are shuffled by the generator)
    n = AG.numel(AG.shape_of(a, a['start']))
    # cotangents are signed (a loss such as -Z or -log Z): every third grammar gets negative entries
    cot = [rng.choice([0, 1, 1, 2] if i % 3 else [0, 1, -1, -2, 2]) for _ in range(n)]
    cotlog = [0] * n
    if n:
        cotlog[rng.randrange(n)] = rng.choice([1, 2] if i % 3 else [1, -1, -2])
    runs = []
    for kind in ('real', 'log'):
        for m in (METHODS if tier == 'thorough' else [METHODS[i % 3], 'fixed-point']):
            dtype = torch.float64 if kind == 'log' or i % 2 == 0 else torch.float32
            runs.append(one(a, kind, m, dtype, cot if kind == 'real' else cotlog))
    return {'ag': {k: a[k] for k in ('nls', 'els', 'start', 'rules', 'w')}, 'mode': 'nat', 'cot': cot, 'cotlog': cotlog, 'pad': 0, 'runs': runs}


def drive_fx(args):
    import torch
    seed, i, tier = args
    rng = rng_for(seed, f'c03f-{i}')
    linear = i % 2 == 0
    dead = i % 3 == 1
    a = AG.gen_fx_recursive(rng, linear=linear and not dead, max_q=0.8, dead=dead, scalar_start=dead or i % 3 == 2, patterned=(i % 4 == 2))
    n = AG.numel(AG.shape_of(a, a['start']))
    # signed cotangents: with a recursive component the solution of the transposed system lies BELOW a negative cotangent
    cot = [rng.choice([1, 1, 2, 0] if i % 2 else [1, -1, -2, 0, 2]) for _ in range(n)] if n > 1 else [rng.choice([1] if i % 2 else [-1, -2, 2])]
    runs = []
    for m in (METHODS if (linear and not dead) else METHODS[:2]):
        runs.append(one(a, 'real', m, torch.float64, cot, fx=True, tol=1e-8))
        if n == 1:      # scalar start: the Log-semiring gradient is judged through the same enclosure
            runs.append(one(a, 'log', m, torch.float64, cot, fx=True, tol=1e-8))
    return {'ag': {k: a[k] for k in ('nls', 'els', 'start', 'rules', 'wfx', 'cert')}, 'mode': 'fx', 'cot': cot, 'cotlog': cot, 'pad': 8, 'runs': runs}


def run(tier, seed):
    o = Outcome(PID, tier, seed)
    o.assumptions = ['non-recursive: natural weights, exact (Real) / rational within 3e-4 (Log); recursive: Real semiring on the dyadic grid, enclosure of width 8/1024 per unit cotangent, only for grammars whose least fixed point TLC proves',
                     'derivatives at infinite weights and recursive Log gradients are outside (finite Z is presupposed)']
    nn, nf = (120, 40) if tier == 'quick' else (1500, 400)
    with Scratch() as work:
        cases = pmap(drive_nat, [(seed, i, tier) for i in range(nn)], chunksize=2) + pmap(drive_fx, [(seed, i, tier) for i in range(nf)], chunksize=1)
        verdicts, st, tr, _ = judge_batch(work / 'judge', 'Trace_Grad', cases, per_shard_min=6, heap='3g')
        o.states += st
        o.transitions += tr
        o.absorb_verdicts(cases, verdicts, load_findings())
        o.extra['nonrecursive_grammars'] = nn
        o.extra['recursive_grammars'] = nf
        o.extra['recursive_certified'] = sum(1 for i, v in verdicts.items() if cases[i - 1]['mode'] == 'fx' and v.get('certified'))
        o.extra['gradient_entries_judged'] = sum(len(v) for c in cases for r in c['runs'] for v in r['grads'].values())
        o.extra['absent_gradients'] = sum(1 for c in cases for r in c['runs'] for v in r['grads'].values() for x in v if x[0] == ABSENT)
        o.sample({'ag': cases[0]['ag'], 'cot': cases[0]['cot'], 'run': cases[0]['runs'][0]})
    return o


def replay(path, seed):
    return run('quick', seed)
