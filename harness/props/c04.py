"""C04 -- viterbi returns a well-formed derivation of maximal weight.

gen   : seeded grammars with integer log-weights (non-recursive: any sign; recursive: <= 0, weight-one
        cycles included), rules whose attached nodes are all external, nullary rules, edgeless nodes,
        size-1 domains, ties; every start assignment.
drive : fggs.viterbi(fgg, start_asst); the derivation serialised through its public fields; derive();
        the Viterbi-semiring sum_product entry.
judge : Trace_Viterbi (TLC): well-formedness of the derivation, values in domains, externals agree,
        total log-weight = the least fixed point on max-plus at that start assignment (Kleene to
        stabilisation) = the Viterbi sum_product = the weight of derive()'s graph and assignment.
"""
from __future__ import annotations
import itertools, json, math, warnings
from ..common import *
from .. import ag as AG

PID = 'C04'


def serialise(deriv, info, a):
    rule_ix = {id(r): ri for ri, r in info['rules'].items()}
    d, assts = [], []

    def visit(dv, parent, via, path):
        ri = rule_ix[id(dv.rule)]
        d.append({'rule': ri + 1, 'parent': parent, 'via': via, 'path': path})
        me = len(d)
        vals = []
        for v in info['nodes'][ri]:
            x = dv.asst.get(v, None)
            vals.append(ABSENT if x is None else int(x))
        assts.append(vals)
        eix = {id(e): k for k, e in enumerate(info['edges'][ri])}
        for e, ch in dv.children.items():
            k = eix[id(e)]
            visit(ch, me, k + 1, path + [k + 1])
    visit(deriv, 0, 0, [])
    return d, assts


def gen_chain(rng):
    """HMM-like: S -> X(x) init(x);  X(x) -> X(y) t(x,y) | stop(x), optionally through a second nonterminal
    (X(x) -> Y(y) t(x,y), Y(y) -> X(y) u(y)).  All weights <= 0; the best derivation usually NEEDS the recursion."""
    n = rng.choice([2, 3, 3, 4])
    two = rng.random() < 0.3
    sarity = rng.choice([0, 1])
    els = {'S': {'t': False, 'type': ['T'] * sarity}, 'X': {'t': False, 'type': ['T']},
           'i': {'t': True, 'type': ['T']}, 't': {'t': True, 'type': ['T', 'T']}, 'e': {'t': True, 'type': ['T']}}
    rules = [{'lhs': 'S', 'nodes': ['T'], 'edges': [{'lab': 'X', 'att': [1]}, {'lab': 'i', 'att': [1]}], 'ext': [1] * sarity},
             {'lhs': 'X', 'nodes': ['T'], 'edges': [{'lab': 'e', 'att': [1]}], 'ext': [1]}]
    if two:
        els['Y'] = {'t': False, 'type': ['T']}
        els['u'] = {'t': True, 'type': ['T']}
        rules.append({'lhs': 'X', 'nodes': ['T', 'T'], 'edges': [{'lab': 'Y', 'att': [2]}, {'lab': 't', 'att': [1, 2]}], 'ext': [1]})
        rules.append({'lhs': 'Y', 'nodes': ['T'], 'edges': [{'lab': 'X', 'att': [1]}, {'lab': 'u', 'att': [1]}], 'ext': [1]})
    else:
        rules.append({'lhs': 'X', 'nodes': ['T', 'T'], 'edges': [{'lab': 't', 'att': [1, 2]}, {'lab': 'X', 'att': [2]}], 'ext': [1]})
    rng.shuffle(rules)
    for r in rules:
        rng.shuffle(r['edges'])
    elorder = list(els)
    rng.shuffle(elorder)
    wmp = {}
    for tname, d in els.items():
        if d['t']:
            k = n ** len(d['type'])
            wmp[tname] = [rng.choice([NINF, -6, -5, -4, -3, -2, -1, -1, 0]) for _ in range(k)]
    if rng.random() < 0.5:
        wmp['e'] = [NINF] * (n - 1) + [rng.randint(-2, 0)]      # only the last state may stop: the recursion is needed
    return {'nls': {'T': n}, 'els': els, 'elorder': elorder, 'start': 'S', 'rules': rules,
            'w': {t: [1] * len(v) for t, v in wmp.items()}, 'wmp': wmp}


def drive(args):
    import torch, fggs
    seed, i = args
    rng = rng_for(seed, f'c04-{i}')
    rec = i % 2 == 1
    if i % 8 == 7:
        a = gen_chain(rng)
    else:
      a = AG.gen_ag(rng, n_nts=(1, 3), max_rules=2, max_nodes=3, max_edges=3, recursion='any' if rec else 'none',
                  weights='small', dom_sizes=(1, 2, 2, 3), start_arity=(0, 0, 1, 2), p_norules=0.05 if rec else 0.0,
                  mp_range=(-3, 0) if rec else (-4, 4), p_zero=0.15, value_cap=1 << 30)
    fresh = (i % 5 >= 3) or (i % 16 == 15)
    dtype = torch.float64 if i % 4 < 2 else torch.float32
    cases = []
    sh = AG.shape_of(a, a['start'])
    for sa in itertools.product(*[range(s) for s in sh]):
        c = {'ag': {k: a[k] for k in ('nls', 'els', 'start', 'rules', 'wmp')}, 'sa': list(sa), 'out': 'ok', 'd': [{'rule': 1, 'parent': 0, 'via': 0, 'path': []}],
             'assts': [[]], 'vit': [0, 0], 'dout': 'ok', 'dw': [0, 0], 'tag': ['recursive' if rec else 'nonrecursive', str(dtype).replace('torch.', '')] + (['fresh_label_objects'] if fresh else []) + (['chain'] if i % 8 == 7 else []) + (['start_declared_last'] if i % 4 == 2 else []) + (['query_then_add_rule'] if i % 4 == 1 else [])}
        try:
            # histories: the start symbol declared LAST (grammar created around another nonterminal, start set at the end);
            # a query BEFORE the last rule is added, then the judged query on the same object
            hist = (i % 4 == 1) and len(a['rules']) >= 2 and not fresh
            defer = 0
            if hist:
                # prefer a rule that brings a NEW dependency between nonterminals (X -> .. Y ..) not present in the other rules
                dep = lambda r: {(r['lhs'], e['lab']) for e in r['edges'] if not a['els'][e['lab']]['t']}
                cands = [ri for ri, r in enumerate(a['rules'])
                         if dep(r) - set().union(*[dep(q) for qi, q in enumerate(a['rules']) if qi != ri])]
                if cands:
                    # the deferred rule is added LAST: the grammar under test lists it after the others, and the judge must
                    # see the rules in that order (the recorded zero-cycle finding is about which maximal rule comes first)
                    ri0 = rng.choice(cands)
                    a = dict(a)
                    a['rules'] = [r for k, r in enumerate(a['rules']) if k != ri0] + [a['rules'][ri0]]
                    c['ag'] = {k: a[k] for k in ('nls', 'els', 'start', 'rules', 'wmp')}
                defer = 1
            g, info = AG.build_fgg(a, 'mp', dtype, implicit_ids=(i % 3 == 0), fresh_labels=fresh, start_last=(i % 4 == 2),
                                   defer_rules=defer)
            sr = fggs.ViterbiSemiring(dtype=dtype)
            if hist:
                try:
                    with warnings.catch_warnings():
                        warnings.simplefilter('ignore')
                        fggs.viterbi(g, tuple(sa), semiring=sr)
                except Exception:
                    pass            # the unfinished grammar may have no derivation: only the history matters
                info['add_deferred']()
            with warnings.catch_warnings():
                warnings.simplefilter('ignore')
                with torch.no_grad():
                    z = fggs.sum_product(g, semiring=sr, method='fixed-point').to_dense()
                v = z[sa].item() if sa else z.item()
                c['vit'] = AG.project_value(v, 'mp', dtype)
                deriv = fggs.viterbi(g, tuple(sa), semiring=sr)
            c['d'], c['assts'] = serialise(deriv, info, a)
            try:
                graph, asst = deriv.derive()
                w = 0.0
                for e in graph.edges():
                    if e.label.is_terminal:
                        w += float(graph.factors[e.label.name].apply([asst[n] for n in e.nodes]))
                c['dw'] = AG.project_value(w, 'mp', dtype)
            except Exception as e:  # noqa
                c['dout'] = 'raise:' + type(e).__name__
        except Exception as e:  # noqa
            c['out'] = 'raise:' + type(e).__name__
            c['err'] = str(e)[:200]
        cases.append(c)
    return cases


def run(tier, seed):
    o = Outcome(PID, tier, seed)
    o.assumptions = ['integer log-weights (exact in IEEE arithmetic); recursive grammars have weights <= 0 so that the maximum is finite and attained',
                     'start assignments whose best weight is -inf (no derivation) are outside the property and carry no verdict']
    n = 260 if tier == 'quick' else 4000
    with Scratch() as work:
        cases = [c for cs in pmap(drive, [(seed, i) for i in range(n)], chunksize=4) for c in cs]
        verdicts, st, tr, _ = judge_batch(work / 'judge', 'Trace_Viterbi', cases, per_shard_min=20, heap='3g')
        o.states += st
        o.transitions += tr
        o.absorb_verdicts(cases, verdicts, load_findings())
        o.extra['grammars'] = n
        o.extra['start_assignments_judged'] = len(cases)
        o.extra['derivations_with_more_than_one_rule_instance'] = sum(1 for c in cases if len(c['d']) > 1)
        o.extra['max_rule_instances'] = max(len(c['d']) for c in cases)
        o.sample(max(cases, key=lambda c: len(c['d'])))
    return o


def replay(path, seed):
    return run('quick', seed)
