"""C07 -- patterned einsum equals the semiring einsum of the dense operands.

gen   : seeded einsum signatures (<= 4 typed indices, <= 3 operands, any output list, the empty
        operand list) with typed patterns for every operand (diagonals, sum-axis embeddings,
        stride-0 expanded and transposed physical tensors, zero-size axes, defaults zero / one /
        other), values on the exact carrier of each semiring.
drive : fggs.indices.einsum, PatternedTensor.mv / mm, log_viterbi_einsum_forward, with and without
        requires_grad (selects the equation-reduction path), under torch.no_grad() as inside
        SumProduct.forward.
judge : Trace_Einsum (TLC): operands are denoted by Axes!PtDense, the result is the semiring
        sum over all values of the non-output indices of the product, 0 x inf = 0; Viterbi
        pointers are in range and attain the maximum.
"""
from __future__ import annotations
import json, math, warnings
from ..common import *
from .. import ag as AG
from .. import pt as PT

PID = 'C07'
CARRIER = {'real': 'nat', 'log': 'nat', 'mp': 'mp', 'bool': 'bool'}
VALS = {'real': [0, 1, 2, 3, 1, 2, INF], 'log': [0, 1, 2, 3, 1, 2, INF], 'mp': [NINF, -2, -1, 0, 1, 2, 0, INF], 'bool': [0, 1]}
ZERO = {'real': 0, 'log': 0, 'mp': NINF, 'bool': 0}
ONE = {'real': 1, 'log': 1, 'mp': 0, 'bool': 1}


def gen_family(rng):
    """signatures aimed at the unification machinery: one index joining many physical axes (three co-indexed operands,
    one of them diagonal; an index repeated inside an operand), a summed index tied to output indices by a diagonal
    (Viterbi pointers), and outputs that permute indices along which every operand is constant"""
    fam = rng.choice(['same3', 'same3', 'repeat', 'tied', 'tied', 'bcast', 'alias', 'alias', 'disjoint', 'disjoint', 'disjoint'])
    ty = ('n', rng.choice([2, 3, 3]))
    if fam == 'disjoint':
        # operands co-indexed on an index of DISJOINT-UNION type (at the top, or inside a product) and on a further index
        # met later in the loop: patterns that back different summands make the result the semiring zero -- a failure
        # that must survive the successful unifications that follow it
        U = ('u', [('n', rng.choice([1, 2])), ('n', rng.choice([1, 2]))])
        ti = rng.choice([U, ('x', [U, ('n', 2)]), ('x', [U, ('n', 2)]), ('x', [('n', 2), U]), ('x', [('n', 2), U]), ('u', [('n', 1), ('n', 1), ('n', 2)])])
        tj = rng.choice([('n', 2), ('n', 3), ('x', [('n', 2), ('n', 2)])])
        form = rng.choice(['ij,ij', 'ij,ij', 'i,i,ij', 'ij,i,j', 'ij,ji', 'i,ij,i', 'i,i'])
        inputs = [list(x) for x in form.split(',')]
        names = sorted({n for lab in inputs for n in lab})
        out = rng.choice([['j'], ['j'], [], ['i'], ['i', 'j'], ['j', 'i']])
        out = [n for n in out if n in names]
        return {n: (ti if n == 'i' else tj) for n in names}, inputs, out, {'share': None, 'fam': 'disjoint'}
    if fam == 'alias':
        # the SAME tensor object (or a transposed view of it, which shares its physical axes) as two operands; index types
        # with embeddings / products so that no virtual axis need be a bare physical axis
        ty = PT.gen_type(rng, rng.choice([2, 3, 4]), depth=1)
        form = rng.choice(['outer', 'mm', 'mmT', 'hadamardT', 'three'])
        if form == 'outer':
            inputs, out, alias = [['i'], ['j']], rng.choice([['i', 'j'], ['j', 'i'], ['i'], []]), [(0, 1, 'same')]
        elif form == 'mm':
            inputs, out, alias = [['i', 'j'], ['j', 'k']], rng.choice([['i', 'k'], ['k'], ['i', 'j', 'k']]), [(0, 1, 'same')]
        elif form == 'mmT':
            inputs, out, alias = [['i', 'j'], ['k', 'j']], rng.choice([['i', 'k'], ['k', 'i']]), [(0, 1, 'same')]
        elif form == 'hadamardT':
            inputs, out, alias = [['i', 'j'], ['j', 'i']], rng.choice([['i', 'j'], ['i'], []]), [(0, 1, 'T')]
        else:
            inputs, out, alias = [['i', 'j'], ['j', 'k'], ['k', 'l']], rng.choice([['i', 'l'], ['l']]), [(0, 1, 'same'), (0, 2, 'same')]
        names = sorted({n for lab in inputs for n in lab})
        return {n: ty for n in names}, inputs, out, {'share': None, 'fam': 'alias', 'alias': alias}
    if fam == 'same3':
        names = ['i', 'j'][:rng.choice([1, 2, 2])]
        inputs = [rng.sample(names, len(names)) for _ in range(3)]
        out = [n for n in names if rng.random() < 0.5]
        share = [rng.choice([0.0, 0.9]) for _ in inputs]
        share[rng.randrange(3)] = 1.0
    elif fam == 'repeat':
        names = ['i', 'j'][:rng.choice([1, 2])]
        inputs = [['i', 'i']] + [rng.sample(names, rng.randint(1, len(names))) for _ in range(rng.randint(1, 2))]
        if rng.random() < 0.3:
            inputs.append(names + ['i'])
        rng.shuffle(inputs)
        out = [n for n in names if rng.random() < 0.6]
        share = [rng.choice([0.0, 0.5]) for _ in inputs]
    elif fam == 'tied':
        names = ['x', 'i', 'j'] + (['k'] if rng.random() < 0.3 else [])
        inputs = [['x', 'i'], ['i', 'j']] + ([['j', 'k']] if 'k' in names else []) + ([['j']] if rng.random() < 0.4 else [])
        out = rng.choice([['x', 'i'], ['i', 'x'], ['x', 'i', 'k'] if 'k' in names else ['x', 'i']])
        share = [0.0, 1.0] + [rng.choice([0.0, 1.0]) for _ in inputs[2:]]
    else:
        names = ['i', 'j', 'k'][:rng.choice([2, 3, 3])]
        inputs = [list(names)] + ([rng.sample(names, rng.randint(1, len(names)))] if rng.random() < 0.4 else [])
        out = list(names)
        rng.shuffle(out)
        share = [0.0 for _ in inputs]
    types = {n: (ty if fam != 'bcast' else ('n', rng.choice([2, 3]))) for n in names}
    if fam == 'tied':
        types['x'] = ('n', rng.choice([2, 3]))
    rng.shuffle(out)
    used = [n for n in names if any(n in i for i in inputs)]
    out = [n for n in out if n in used]
    return {n: types[n] for n in used}, inputs, out, {'share': share, 'fam': fam}


def gen_signature(rng):
    if rng.random() < 0.3:
        return gen_family(rng)
    return gen_signature0(rng) + ({'share': None, 'fam': 'random'},)


def gen_signature0(rng):
    nidx = rng.randint(1, 4)
    names = ['i', 'j', 'k', 'l'][:nidx]
    types = {n: PT.gen_type(rng, rng.choice([2, 3, 3, 4]), depth=1) for n in names}
    if rng.random() < 0.08:
        types[names[0]] = ('n', 0)
    nops = rng.choice([0, 1, 2, 2, 2, 3, 3])
    inputs = []
    for _ in range(nops):
        k = rng.randint(0 if rng.random() < 0.1 else 1, min(3, nidx))
        inputs.append(rng.sample(names, k))
    used = [n for n in names if any(n in i for i in inputs)]
    if rng.random() < 0.25:
        out = list(used)                    # nothing summed out: the equation-reduction path
    else:
        out = [n for n in used if rng.random() < 0.45]
    rng.shuffle(out)
    return {n: types[n] for n in used}, inputs, out


def carrier_pattern(rng, kind, types, start_id, allow_inf=True, share=None, bcast=False, p_whole=0.4):
    vals = [v for v in VALS[kind] if allow_inf or abs(v) < INF]
    d = rng.choice([ZERO[kind]] * 4 + [ONE[kind], rng.choice(vals)])
    st = PT.gen_pattern(rng, types, default=d, start_id=start_id, p_whole=p_whole, **({} if share is None else {'share': share}))
    st['ph'] = [rng.choice(vals) for _ in st['ph']]
    if st['ps'] and (bcast or rng.random() < 0.4) and all(p['n'] > 0 for p in st['ps']):
        # constant along a random non-empty subset E of the physical axes: built as a stride-0 expanded view
        import itertools
        nps = len(st['ps'])
        E = [k for k in range(nps) if rng.random() < (0.85 if bcast else 0.6)] or [0]
        sizes = [p['n'] for p in st['ps']]
        newph = []
        for q in itertools.product(*[range(n) for n in sizes]):
            q0 = [0 if k in E else q[k] for k in range(nps)]
            flat = 0
            for n_, x in zip(sizes, q0):
                flat = flat * n_ + x
            newph.append(st['ph'][flat])
        st['ph'] = newph
        st['expandE'] = E
    return st


def build_real(st, kind, dtype):
    import torch
    real = {'ps': st['ps'], 'vs': st['vs'], 'd': AG._to_float(st['d'], kind), 'ph': [AG._to_float(v, kind) for v in st['ph']]}
    p = PT.build(real, torch.bool if kind == 'bool' else dtype, 'contig')
    if st.get('expandE') is not None and len(p.paxes) == len(st['ps']) and p.physical.ndim == len(st['ps']):
        from fggs.indices import PatternedTensor
        idx = tuple(slice(0, 1) if k in st['expandE'] else slice(None) for k in range(p.physical.ndim))
        ph = p.physical[idx].expand(p.physical.shape)      # stride 0 along the axes in E
        p = PatternedTensor(ph, p.paxes, p.vaxes, p.default)
    return p


def to_carrier(t, kind):
    flat = t.reshape(-1).tolist()
    if kind == 'bool':
        return [1 if x else 0 for x in flat]
    if kind == 'log':
        return [snap_exp(float(x), 1e-5) for x in flat]
    return [snap_int(float(x)) for x in flat]


def drive(args):
    import torch
    from fggs import indices
    seed, i = args
    rng = rng_for(seed, f'c07-{i}')
    types, inputs, output, hints = gen_signature(rng)
    kind = ['real', 'log', 'mp', 'bool'][i % 4]
    dtype = torch.float64 if (i // 4) % 2 == 0 else torch.float32
    grad = (i // 8) % 2 == 1 and kind in ('real', 'log', 'mp')
    viterbi = kind == 'mp' and (i // 16) % 2 == 0
    sr = AG.semiring_for(kind, dtype)
    sizes = {n: PT.numel_type(t) for n, t in types.items()}
    c = {'sr': CARRIER[kind], 'inputs': inputs, 'output': output, 'sizes': sizes, 'ops': [], 'opdense': [], 'out': 'ok',
         'res': [], 'shape': [], 'viterbi': False, 'ptr': [], 'summed': [],
         'tag': [kind, str(dtype).replace('torch.', ''), 'grad' if grad else 'nograd', 'viterbi' if viterbi else 'einsum', 'fam:' + hints['fam']]}
    if not sizes:
        c['sizes'] = {'_': 1}
    ops = []
    for k, lab in enumerate(inputs):
        st = carrier_pattern(rng, kind, [types[n] for n in lab], 1 + 20 * k, allow_inf=True,
                             share=hints['share'][k] if hints['share'] else None, bcast=hints['fam'] == 'bcast',
                             p_whole=0.1 if hints['fam'] == 'disjoint' else 0.4)
        c['ops'].append({'ps': st['ps'], 'vs': st['vs'], 'd': st['d'], 'ph': st['ph']})
        ops.append(build_real(st, kind, dtype))
    for (k1, k2, how) in hints.get('alias', []):
        if how == 'same':
            ops[k2], c['ops'][k2] = ops[k1], c['ops'][k1]
        else:
            ops[k2] = ops[k1].T
            c['ops'][k2] = dict(c['ops'][k1], vs=list(reversed(c['ops'][k1]['vs'])))
    c['opdense'] = [to_carrier(p.to_dense(), kind) for p in ops]
    if grad:
        for p in ops:
            if p.physical.dtype.is_floating_point:
                p.physical.requires_grad_()
    summed = []
    for lab in inputs:
        for n in lab:
            if n not in output and n not in summed:
                summed.append(n)
    c['summed'] = summed
    try:
        with warnings.catch_warnings(record=True) as wl:
            warnings.simplefilter('always')
            with torch.no_grad():
                if viterbi:
                    out, ptr = indices.log_viterbi_einsum_forward(ops, inputs, output, sr)
                    c['viterbi'] = True
                    pd = ptr.to_dense()
                    cells = 1
                    for s in out.size():
                        cells *= s
                    pl = pd.reshape(cells, -1).tolist() if cells else []
                    c['ptr'] = [[int(x) for x in row] for row in pl]
                else:
                    out = indices.einsum(ops, inputs, output, sr)
            if any('index type mismatch' in str(w.message) for w in wl):
                raise MachineryFailure('type-mismatch warning on a well-typed einsum: typing model wrong')
        d = out.to_dense()
        c['shape'] = [int(x) for x in d.shape]
        c['res'] = AG.project_tensor(d, kind, dtype)
    except MachineryFailure:
        raise
    except Exception as e:  # noqa
        c['out'] = 'raise:' + type(e).__name__
        c['err'] = str(e)[:200]
    return c


def drive_mvmm(args):
    import torch
    seed, i = args
    rng = rng_for(seed, f'c07mv-{i}')
    kind = ['real', 'log', 'mp', 'bool'][i % 4]
    dtype = torch.float64
    sr = AG.semiring_for(kind, dtype)
    ti, tj, tk = (PT.gen_type(rng, 3, 1) for _ in range(3))
    mm = i % 2 == 0
    inputs = [['i', 'j'], ['j', 'k']] if mm else [['i', 'j'], ['j']]
    output = ['i', 'k'] if mm else ['i']
    types = {'i': ti, 'j': tj, 'k': tk}
    sizes = {n: PT.numel_type(types[n]) for n in set(sum(inputs, []))}
    c = {'sr': CARRIER[kind], 'inputs': inputs, 'output': output, 'sizes': sizes, 'ops': [], 'opdense': [], 'out': 'ok',
         'res': [], 'shape': [], 'viterbi': False, 'ptr': [], 'summed': ['j'], 'tag': [kind, 'mm' if mm else 'mv']}
    ops = []
    for k, lab in enumerate(inputs):
        st = carrier_pattern(rng, kind, [types[n] for n in lab], 1 + 20 * k)
        c['ops'].append({'ps': st['ps'], 'vs': st['vs'], 'd': st['d'], 'ph': st['ph']})
        ops.append(build_real(st, kind, dtype))
    c['opdense'] = [to_carrier(p.to_dense(), kind) for p in ops]
    try:
        with warnings.catch_warnings():
            warnings.simplefilter('ignore')
            with torch.no_grad():
                out = ops[0].mm(ops[1], sr) if mm else ops[0].mv(ops[1], sr)
        d = out.to_dense()
        c['shape'] = [int(x) for x in d.shape]
        c['res'] = AG.project_tensor(d, kind, dtype)
    except Exception as e:  # noqa
        c['out'] = 'raise:' + type(e).__name__
        c['err'] = str(e)[:200]
    return c


def run(tier, seed):
    o = Outcome(PID, tier, seed)
    o.assumptions = ['operand values on the exact carriers (naturals/INF, integer log-weights, booleans); Log results via the interval projection',
                     'typed operands: co-indexed axes have the same index type; signatures with <= 4 indices and <= 3 operands',
                     'the call is made under torch.no_grad() (as SumProduct.forward does)']
    n = 640 if tier == 'quick' else 12000
    with Scratch() as work:
        cases = pmap(drive, [(seed, i) for i in range(n)], chunksize=8) + pmap(drive_mvmm, [(seed, i) for i in range(n // 8)], chunksize=8)
        verdicts, st, tr, _ = judge_batch(work / 'judge', 'Trace_Einsum', cases, per_shard_min=60, heap='3g')
        o.states += st
        o.transitions += tr
        for v in verdicts.values():
            if v.get('v', '').startswith('GeneratorGave') or v.get('v') == 'OperandDenotation':
                raise MachineryFailure(f"einsum case generator inconsistent with the specification: {v}")
        o.absorb_verdicts(cases, verdicts, load_findings())
        tags = {}
        for c in cases:
            k = '/'.join(str(x) for x in c['tag'] if x in ('real', 'log', 'mp', 'bool', 'viterbi', 'einsum', 'mm', 'mv', 'grad'))
            tags[k] = tags.get(k, 0) + 1
        o.extra['cases_by_semiring_and_variant'] = tags
        o.extra['signatures_with_empty_operand_list'] = sum(1 for c in cases if not c['inputs'])
        o.extra['cases_with_zero_size_index'] = sum(1 for c in cases if 0 in c['sizes'].values())
        o.sample(next(c for c in cases if len(c['inputs']) == 3))
    return o


def replay(path, seed):
    return run('quick', seed)
