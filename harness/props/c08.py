"""C08 -- the four semirings obey the semiring laws on their (exact) carrier.

R3    : MC_Semiring -- TLC checks every law on the carriers themselves (all triples).
drive : add/mul/sub on all pairs of carrier points held in Tensors and in PatternedTensors
        of several patterns (dense, stride-0 expanded, diagonal with default zero/one/INF,
        sum-axis embedding); both sides of every law on all triples; star, sub, from_int,
        sum, add_.
judge : Trace_Semiring (TLC) -- observed values against the carrier operations.
"""
from __future__ import annotations
import warnings
import itertools, json, math
from ..common import *
from .. import ag as AG

PID = 'C08'
POINTS = {'real': [0, 1, 2, 3, 5, INF], 'log': [0, 1, 2, 3, 5, INF],
          'mp': [NINF, -3, -1, 0, 1, 2, INF], 'bool': [0, 1]}
CARRIER = {'real': 'nat', 'log': 'nat', 'mp': 'mp', 'bool': 'bool'}
ZERO = {'real': 0, 'log': 0, 'mp': NINF, 'bool': 0}
ONE = {'real': 1, 'log': 1, 'mp': 0, 'bool': 1}


def tf(x, kind):
    return AG._to_float(x, kind)


def tens(vals, kind, dtype, shape=None):
    import torch
    t = torch.tensor([tf(v, kind) for v in vals], dtype=torch.bool if kind == 'bool' else dtype)
    return t.reshape(shape) if shape is not None else t


def operands(kind, dtype, which):
    """Representations of the n x n matrix M[i,j] = p_i (which='row') or p_j (which='col'),
    plus patterned matrices with defaults.  Yields (tag, object, dense carrier values flat)."""
    from fggs.indices import PatternedTensor, PhysicalAxis, SumAxis
    P = POINTS[kind]
    n = len(P)
    dense = [[P[i] if which == 'row' else P[j] for j in range(n)] for i in range(n)]
    flat = [x for r in dense for x in r]
    T = tens(flat, kind, dtype, (n, n))
    yield 'tensor', T, flat
    yield 'pt_dense', PatternedTensor(T.clone()), flat
    v = PatternedTensor(tens(P, kind, dtype))
    if which == 'row':
        yield 'pt_expand', v.unsqueeze(1).expand(n, n), flat
        # operands that the operation itself has to BROADCAST: a column (n, 1)
        yield 'pt_bcast_col', v.unsqueeze(1), flat
        yield 'tensor_bcast_col', tens(P, kind, dtype).unsqueeze(1), flat
    else:
        yield 'pt_expand', v.unsqueeze(0).expand(n, n), flat
        # ... a vector of lower rank (n,) and a row (1, n)
        yield 'pt_bcast_vec', PatternedTensor(tens(P, kind, dtype)), flat
        yield 'pt_bcast_row', v.unsqueeze(0), flat
        yield 'tensor_bcast_vec', tens(P, kind, dtype), flat
    defaults = [('z', ZERO[kind]), ('o', ONE[kind])] + ([('i', INF)] if kind != 'bool' else [])
    for dn, d in defaults:
        k = PhysicalAxis(n)
        pt = PatternedTensor(tens(P, kind, dtype), (k,), (k, k), tf(d, kind))
        yield 'pt_diag_' + dn, pt, [P[i] if i == j else d for i in range(n) for j in range(n)]
    # sum-axis embedding: rows 1..n-1 hold a (n-1) x n block, row 0 is default
    if n >= 3:
        k1, k2 = PhysicalAxis(n - 1), PhysicalAxis(n)
        block = [[P[(i + j) % n] for j in range(n)] for i in range(n - 1)]
        pt = PatternedTensor(tens([x for r in block for x in r], kind, dtype, (n - 1, n)), (k1, k2),
                             (SumAxis(1, k1, 0), k2), tf(ZERO[kind], kind))
        yield 'pt_sum', pt, [ZERO[kind]] * n + [x for r in block for x in r]


def proj(t, kind, dtype):
    from fggs.indices import PatternedTensor
    if isinstance(t, PatternedTensor):
        t = t.to_dense()
    return AG.project_tensor(t, kind, dtype)


def drive_kind(args):
    kind, dtname = args
    import torch
    dtype = getattr(torch, dtname)
    sr = AG.semiring_for(kind, dtype)
    C = CARRIER[kind]
    cases = []
    base = {'sr': C, 'out': 'ok'}
    # --- P1: elementwise under representations
    rows = list(operands(kind, dtype, 'row'))
    cols = list(operands(kind, dtype, 'col'))
    pairs = [(x, y) for x in rows for y in cols]
    # broadcast operands also FIRST (a vector or a row against a full matrix / a column)
    pairs += [(y, x) for x in rows for y in cols if 'bcast' in y[0]]
    for ((ta, a, fa), (tb, b, fb)) in pairs:
        if True:
            if ta.startswith('tensor') != tb.startswith('tensor'):
                continue
            for op in ('add', 'mul', 'sub'):
                c = dict(base, kind='ew', op=op, A=fa, B=fb, tag=[kind, dtname, op, ta, tb], R=[])
                try:
                    r = getattr(sr, op)(a, b)
                    c['R'] = proj(r, kind, dtype)
                    if op == 'sub':
                        # normative: same as on Tensors holding the same dense values
                        # (operands of the SAME SHAPES as the patterned ones: a semiring's sub need not broadcast)
                        dn = lambda x: x.to_dense() if hasattr(x, 'to_dense') else x
                        rt = sr.sub(dn(a).clone(), dn(b).clone())
                        c['kind'] = 'ewsame'
                        c['Rt'] = proj(rt, kind, dtype)
                except Exception as e:  # noqa
                    c['out'] = 'raise:' + type(e).__name__
                cases.append(c)
    # --- P1b: a 0-dim PatternedTensor as SECOND operand, the same first operand used twice: the operation must not
    # change its operands (the second result equals the first, both equal the carrier operation)
    from fggs.indices import PatternedTensor as _PT
    for (ta, a, fa) in rows:
        if ta.startswith('tensor') or 'expand' in ta or 'bcast' in ta:
            continue
        for pv in POINTS[kind]:
            for op in ('add', 'mul'):
                S = _PT(tens([pv], kind, dtype).reshape(()))
                for rep in ('first', 'again'):
                    c = dict(base, kind='ew', op=op, A=fa, B=[pv] * len(fa), tag=[kind, dtname, op, ta, 'scalar_pt', rep], R=[])
                    try:
                        r = getattr(sr, op)(a, S)
                        rd = r.to_dense() if hasattr(r, 'to_dense') else r
                        if rd.numel() != len(fa):
                            rd = rd.expand(a.size() if hasattr(a, 'size') else a.shape)
                        c['R'] = proj(rd, kind, dtype)
                    except Exception as e:  # noqa
                        c['out'] = 'raise:' + type(e).__name__
                    cases.append(c)
    # --- P2: laws on all triples (0-dim tensors)
    P = POINTS[kind]
    s = lambda x: tens([x], kind, dtype).reshape(())
    pj = lambda t: AG.project_value(t.item(), kind, dtype)
    zero, one = sr.from_int(0), sr.from_int(1)
    for a, b, x in itertools.product(P, P, P):
        c = dict(base, kind='law', a=a, b=b, c=x, tag=[kind, dtname, 'law'])
        try:
            A, B, X = s(a), s(b), s(x)
            c.update(addl=pj(sr.add(sr.add(A, B), X)), addr=pj(sr.add(A, sr.add(B, X))),
                     mull=pj(sr.mul(sr.mul(A, B), X)), mulr=pj(sr.mul(A, sr.mul(B, X))),
                     distl=pj(sr.mul(A, sr.add(B, X))), distr=pj(sr.add(sr.mul(A, B), sr.mul(A, X))),
                     ab=pj(sr.add(A, B)), ba=pj(sr.add(B, A)), mab=pj(sr.mul(A, B)), mba=pj(sr.mul(B, A)),
                     a0=pj(sr.add(A, zero)), a1=pj(sr.mul(A, one)), az=pj(sr.mul(A, zero)))
        except Exception as e:  # noqa
            c['out'] = 'raise:' + type(e).__name__
        cases.append(c)
    # --- P3: star, sub, from_int, sum, add_
    for x in P:
        c = dict(base, kind='star', x=x, tag=[kind, dtname, 'star'], r=[0, 0])
        try:
            c['r'] = pj(sr.star(s(x)))
        except Exception as e:  # noqa
            c['out'] = 'raise:' + type(e).__name__
        cases.append(c)
    if kind in ('real', 'log'):
        for q in (0, 2, 3, 4, 8):
            c = dict(base, kind='star4', x=q, tag=[kind, dtname, 'star4'], r=[0, 0])
            try:
                v = q / 4.0
                t = torch.tensor(v if kind == 'real' else (math.log(v) if v > 0 else -math.inf), dtype=dtype)
                c['r'] = pj(sr.star(t))
            except Exception as e:  # noqa
                c['out'] = 'raise:' + type(e).__name__
            cases.append(c)
    for x, y in itertools.product(P, P):
        c = dict(base, kind='sub', x=x, y=y, tag=[kind, dtname, 'sub'], r=[0, 0])
        try:
            c['r'] = pj(sr.add(sr.sub(s(x), s(y)), s(y)))
        except Exception as e:  # noqa
            c['out'] = 'raise:' + type(e).__name__
        cases.append(c)
    for n in range(0, 5):
        for form in ('int', 'tensor'):
            c = dict(base, kind='fromint', n=n, tag=[kind, dtname, 'from_int', form], r=[0, 0])
            try:
                c['r'] = pj(sr.from_int(n if form == 'int' else torch.tensor(n)))
            except Exception as e:  # noqa
                c['out'] = 'raise:' + type(e).__name__
            cases.append(c)
    rng = rng_for(0, 'c08' + kind)
    vecs = [[p] for p in P] + [list(P)] + [[rng.choice(P) for _ in range(rng.randint(2, 5))] for _ in range(12)]
    for vi, xs in enumerate(vecs):
        c = dict(base, kind='sum', xs=xs, tag=[kind, dtname, 'sum'] + (['accumulator_is_from_int_itself'] if vi % 2 else []), sum=[0, 0], addfold=[0, 0])
        try:
            c['sum'] = pj(sr.sum(tens(xs, kind, dtype), dim=0))
            # a HISTORY on one semiring object: the accumulator is what from_int(0) handed out (every other vector: not
            # even cloned), updated in place; the semiring's constants must be untouched by that afterwards
            acc = sr.from_int(0) if vi % 2 else sr.from_int(0).clone()
            for x in xs:
                sr.add_(acc, s(x))
            c['addfold'] = pj(acc)
        except Exception as e:  # noqa
            c['out'] = 'raise:' + type(e).__name__
        cases.append(c)
    for n in range(0, 5):
        c = dict(base, kind='fromint', n=n, tag=[kind, dtname, 'from_int', 'int', 'after_inplace_history'], r=[0, 0])
        try:
            c['r'] = pj(sr.from_int(n))
        except Exception as e:  # noqa
            c['out'] = 'raise:' + type(e).__name__
        cases.append(c)
    for a in P:
        c = dict(base, kind='law', a=a, b=a, c=a, tag=[kind, dtname, 'law', 'after_inplace_history'])
        try:
            A = s(a)
            zero2, one2 = sr.from_int(0), sr.from_int(1)
            c.update(addl=pj(sr.add(sr.add(A, A), A)), addr=pj(sr.add(A, sr.add(A, A))),
                     mull=pj(sr.mul(sr.mul(A, A), A)), mulr=pj(sr.mul(A, sr.mul(A, A))),
                     distl=pj(sr.mul(A, sr.add(A, A))), distr=pj(sr.add(sr.mul(A, A), sr.mul(A, A))),
                     ab=pj(sr.add(A, A)), ba=pj(sr.add(A, A)), mab=pj(sr.mul(A, A)), mba=pj(sr.mul(A, A)),
                     a0=pj(sr.add(A, zero2)), a1=pj(sr.mul(A, one2)), az=pj(sr.mul(A, zero2)))
        except Exception as e:  # noqa
            c['out'] = 'raise:' + type(e).__name__
        cases.append(c)
    return cases


# ---------------------------------------------------------------------------------------------------
# the whole floating-point range on powers of two (spec/Binade.tla)

FMT = {'float64': {'emin': -1074, 'emax': 1023, 'mant': 53}, 'float32': {'emin': -149, 'emax': 127, 'mant': 24}}
EXPS = {'float64': [-1074, -1073, -1023, -1022, -1021, -600, -54, -53, -52, -2, -1, 0, 1, 2, 52, 53, 54, 600, 1021, 1022, 1023],
        'float32': [-149, -148, -127, -126, -125, -60, -25, -24, -23, -2, -1, 0, 1, 2, 23, 24, 25, 60, 125, 126, 127]}
Z_ = {'k': 'z', 's': 1, 'e': 0, 'p': False}


def bn_of(v):
    """sign / binade / exact-power-of-two of a float, by frexp (exact, subnormals included)"""
    v = float(v)
    if math.isnan(v):
        return {'k': 'nan', 's': 1, 'e': 0, 'p': False}
    if math.isinf(v):
        return {'k': 'inf', 's': 1 if v > 0 else -1, 'e': 0, 'p': False}
    if v == 0.0:
        return dict(Z_)
    m, p = math.frexp(abs(v))
    return {'k': 'b', 's': 1 if v > 0 else -1, 'e': p - 1, 'p': m == 0.5}


def bn_float(b):
    if b['k'] == 'z':
        return 0.0
    if b['k'] == 'inf':
        return math.inf * b['s']
    return b['s'] * math.ldexp(1.0, b['e'])


def drive_binade(args):
    fam, dtname = args
    import torch
    dtype = getattr(torch, dtname)
    f = FMT[dtname]
    sr = {'real': AG.semiring_for('real', dtype), 'log': AG.semiring_for('log', dtype), 'vit': AG.semiring_for('mp', dtype)}[fam]
    # a HISTORY in this process before any law is looked at: every semiring has already solved a linear system (what any
    # sum_product of a recursive grammar does).  Whatever a solver leaves behind in the process -- a floating-point mode,
    # a cached constant -- must not change how the smallest and largest floats behave afterwards.
    for kind0 in ('real', 'log', 'mp'):
        s0 = AG.semiring_for(kind0, dtype)
        z0, o0 = s0.from_int(0).item(), s0.from_int(1).item()
        h0 = 0.5 if kind0 == 'real' else -0.5
        a0 = torch.tensor([[z0, h0], [h0, z0]], dtype=dtype)
        b0 = torch.tensor([o0, z0], dtype=dtype)
        with warnings.catch_warnings():
            warnings.simplefilter('ignore')
            s0.solve(a0, b0)
    T = lambda b: torch.tensor(bn_float(b), dtype=dtype)
    P = lambda s, e: {'k': 'b', 's': s, 'e': e, 'p': True}
    INFp, INFm = {'k': 'inf', 's': 1, 'e': 0, 'p': False}, {'k': 'inf', 's': -1, 'e': 0, 'p': False}
    E = EXPS[dtname]
    if fam == 'real':
        pts = [dict(Z_), INFp] + [P(1, e) for e in E]
        zero, one = dict(Z_), P(1, 0)
    else:
        pts = [dict(Z_), INFp, INFm] + [P(s, e) for e in E for s in (1, -1)]
        zero, one = INFm, dict(Z_)
    cases = []

    def case(op, x=Z_, y=Z_, z=Z_, n=0):
        return {'kind': 'bn', 'sr': 'nat', 'fam': fam, 'f': f, 'op': op, 'x': x, 'y': y, 'z': z, 'n': n, 'r': dict(Z_), 'r2': dict(Z_), 'eq': False,
                'rmilli': 0, 'out': 'ok', 'tag': [fam, dtname, 'binade', op]}

    def run(c, fn):
        try:
            fn(c)
        except Exception as e:  # noqa
            c['out'] = 'raise:' + type(e).__name__
        cases.append(c)
    for x in pts:
        for y in pts:
            def f_mul(c, x=x, y=y):
                c['r'] = bn_of(sr.mul(T(x), T(y)).item())
            run(case('mul', x, y), f_mul)

            def f_add(c, x=x, y=y):
                c['r'], c['r2'] = bn_of(sr.add(T(x), T(y)).item()), bn_of(sr.add(T(y), T(x)).item())
            run(case('add', x, y), f_add)
        def f_id(c, x=x):
            c['r'], c['r2'] = bn_of(sr.add(T(x), sr.from_int(0)).item()), bn_of(sr.mul(T(x), sr.from_int(1)).item())
        run(case('ident', x), f_id)

        def f_an(c, x=x):
            c['r'], c['r2'] = bn_of(sr.mul(T(x), sr.from_int(0)).item()), bn_of(sr.mul(sr.from_int(0), T(x)).item())
        run(case('annih', x), f_an)

        def f_star(c, x=x):
            c['r'] = bn_of(sr.star(T(x)).item())
        run(case('star', x), f_star)
    rng = rng_for(0, 'c08bn' + fam + dtname)
    fin = [p for p in pts if p['k'] == 'b']
    for _ in range(400):
        x, y, z = rng.choice(pts), rng.choice(pts), rng.choice(pts)

        def f_as(c, x=x, y=y, z=z):
            c['r'], c['r2'] = bn_of(sr.mul(sr.mul(T(x), T(y)), T(z)).item()), bn_of(sr.mul(T(x), sr.mul(T(y), T(z))).item())
        run(case('mul_comm_assoc', x, y, z), f_as)
    if fam != 'real':
        # triples whose log-values add without any rounding: (2^e, 2^e, 2^(e+1)), (2^e, -2^e, any), with zero / infinite mixed in
        for e in E:
            if e + 2 > f['emax']:
                continue
            for s in (1, -1):
                for (x, y, z) in ((P(s, e), P(s, e), P(s, e + 1)), (P(s, e + 1), P(s, e), P(s, e)), (P(s, e), P(-s, e), P(s, e + 1)),
                                  (P(s, e), P(s, e), INFm), (INFp, P(s, e), P(-s, e)), (P(s, e), dict(Z_), P(s, e))):
                    def f_as2(c, x=x, y=y, z=z):
                        c['r'], c['r2'] = bn_of(sr.mul(sr.mul(T(x), T(y)), T(z)).item()), bn_of(sr.mul(T(x), sr.mul(T(y), T(z))).item())
                    run(case('mul_comm_assoc', x, y, z), f_as2)
    if fam == 'real':
        for _ in range(400):
            x = rng.choice(fin)
            ey = rng.choice(E)
            y, z = P(1, ey), P(1, max(f['emin'], min(f['emax'], ey + rng.choice([-3, -1, 0, 1, 2, 10, f['mant'] - 2]))))

            def f_di(c, x=x, y=y, z=z):
                l = sr.mul(T(x), sr.add(T(y), T(z)))
                r = sr.add(sr.mul(T(x), T(y)), sr.mul(T(x), T(z)))
                c['r'], c['r2'], c['eq'] = bn_of(l.item()), bn_of(r.item()), bool(l.item() == r.item())
            run(case('distrib', x, y, z), f_di)
        for x in fin:
            for y in fin:
                if y['e'] <= x['e']:
                    def f_sub(c, x=x, y=y):
                        c['r'] = bn_of(sr.add(sr.sub(T(x), T(y)), T(y)).item())
                    run(case('sub', x, y), f_sub)
        # star just below the radius of convergence: x = 1 - 2^-k is a float for k <= mantissa
        for k in range(1, f['mant'] + 1):
            def f_so(c, k=k):
                x = torch.tensor(1.0, dtype=dtype) - torch.tensor(math.ldexp(1.0, -k), dtype=dtype)
                if not (float(x) < 1.0):
                    raise MachineryFailure('1 - 2^-k is not below 1')
                c['r'] = bn_of(sr.star(x).item())
            run(case('star_om', n=k), f_so)
    if fam == 'log':
        # star at the log-value x with exp(x) = 1 - 2^-k, down to the smallest subnormal: k ln 2
        for k in [1, 2, 3, 5, 8, 12, 16, 20, 23, 24, 25, 30, 40, 50, 52, 53, 54, 60, 100, 126, 127, 140, 149] + \
                 ([200, 500, 1000, 1022, 1023, 1050, 1074] if dtname == 'float64' else []):
            if -k < f['emin']:
                continue

            def f_sl(c, k=k):
                xv = math.log1p(-math.ldexp(1.0, -k))          # correctly rounded double; then to the format
                x = torch.tensor(xv, dtype=dtype)
                if float(x) == 0.0:
                    raise MachineryFailure('log1p(-2^-k) underflowed')
                # in float32 the rounding of x itself moves exp(x): expected value from the float actually used
                kk = -math.log2(-math.expm1(float(x)))
                c['n'] = k if abs(kk - k) < 1e-6 else -1
                c['rmilli'] = int(round(1000 * float(sr.star(x).item()))) if math.isfinite(float(sr.star(x).item())) else 2000000000
            c = case('star_om', n=k)
            run(c, f_sl)
            if c['n'] == -1:
                cases.pop()
    return cases


def run(tier, seed):
    o = Outcome(PID, tier, seed)
    o.assumptions = ['carrier = exact sub-carrier of each semiring (small naturals, integer log-weights, +-inf, booleans) plus quarters for star; "every finite float incl. subnormals" is outside a TLC model (see DESIGN.md section 4)',
                     'Log-semiring values are compared through exp with 1e-4 (float32) / 1e-9 (float64) relative tolerance']
    with Scratch() as work:
        r = run_tlc(work / 'r3', 'MC_Semiring', 'INIT Init\nNEXT Next\nINVARIANT Laws\nINVARIANT StarOm\nINVARIANT BnMulLaws\nCHECK_DEADLOCK FALSE\n', workers=1)
        o.add_tlc(r)
        combos = [(k, d) for k in ('real', 'log', 'mp') for d in ('float64', 'float32')] + [('bool', 'bool')]
        cases = [c for cs in pmap(drive_kind, combos, procs=len(combos), chunksize=1) for c in cs]
        bcombos = [(fam, d) for fam in ('real', 'log', 'vit') for d in ('float64', 'float32')]
        bcases = [c for cs in pmap(drive_binade, bcombos, procs=len(bcombos), chunksize=1) for c in cs]
        o.extra['binade_cases'] = len(bcases)
        cases += bcases
        verdicts, st, tr, _ = judge_batch(work / 'judge', 'Trace_Semiring', cases, per_shard_min=300)
        o.states += st
        o.transitions += tr
        o.absorb_verdicts(cases, verdicts, load_findings())
        o.exhaustive = True
        kinds = {}
        for c in cases:
            kinds[c['kind']] = kinds.get(c['kind'], 0) + 1
        o.extra['cases_by_kind'] = kinds
        o.extra['carrier_points'] = POINTS
        o.sample(next(c for c in cases if c['kind'] == 'law' and c['a'] == INF))
        o.sample(next(c for c in cases if c['kind'] in ('ew',) and c['tag'][3] == 'pt_diag_z'))
    return o


def replay(path, seed):
    return run('quick', seed)
