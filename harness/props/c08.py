"""C08 -- the four semirings obey the semiring laws on their (exact) carrier.

R3    : MC_Semiring -- TLC checks every law on the carriers themselves (all triples).
drive : add/mul/sub on all pairs of carrier points held in Tensors and in PatternedTensors
        of several patterns (dense, stride-0 expanded, diagonal with default zero/one/INF,
        sum-axis embedding); both sides of every law on all triples; star, sub, from_int,
        sum, add_.
judge : Trace_Semiring (TLC) -- observed values against the carrier operations.
"""
from __future__ import annotations
import itertools, json, math
from ..common import *
from .. import ag as AG

PID = 'C08'
POINTS = {'real': [0, 1, 2, 3, 5, INF], 'log': [0, 1, 2, 3, 5, INF],
          'mp': [NINF, -3, -1, 0, 1, 2, INF], 'bool': [0, 1]}
CARRIER = {'real': 'nat', 'log': 'nat', 'mp': 'mp', 'bool': 'bool'}
ZERO = {'real': 0, 'log': 0, 'mp': NINF, 'bool': 0}
ONE = {'real': 1, 'log': 1, 'mp': 0, 'bool': 1}


def tf(x, kind):
    return AG._to_float(x, kind)


def tens(vals, kind, dtype, shape=None):
    import torch
    t = torch.tensor([tf(v, kind) for v in vals], dtype=torch.bool if kind == 'bool' else dtype)
    return t.reshape(shape) if shape is not None else t


def operands(kind, dtype, which):
    """Representations of the n x n matrix M[i,j] = p_i (which='row') or p_j (which='col'),
    plus patterned matrices with defaults.  Yields (tag, object, dense carrier values flat)."""
    from fggs.indices import PatternedTensor, PhysicalAxis, SumAxis
    P = POINTS[kind]
    n = len(P)
    dense = [[P[i] if which == 'row' else P[j] for j in range(n)] for i in range(n)]
    flat = [x for r in dense for x in r]
    T = tens(flat, kind, dtype, (n, n))
    yield 'tensor', T, flat
    yield 'pt_dense', PatternedTensor(T.clone()), flat
    v = PatternedTensor(tens(P, kind, dtype))
    if which == 'row':
        yield 'pt_expand', v.unsqueeze(1).expand(n, n), flat
    else:
        yield 'pt_expand', v.unsqueeze(0).expand(n, n), flat
    defaults = [('z', ZERO[kind]), ('o', ONE[kind])] + ([('i', INF)] if kind != 'bool' else [])
    for dn, d in defaults:
        k = PhysicalAxis(n)
        pt = PatternedTensor(tens(P, kind, dtype), (k,), (k, k), tf(d, kind))
        yield 'pt_diag_' + dn, pt, [P[i] if i == j else d for i in range(n) for j in range(n)]
    # sum-axis embedding: rows 1..n-1 hold a (n-1) x n block, row 0 is default
    if n >= 3:
        k1, k2 = PhysicalAxis(n - 1), PhysicalAxis(n)
        block = [[P[(i + j) % n] for j in range(n)] for i in range(n - 1)]
        pt = PatternedTensor(tens([x for r in block for x in r], kind, dtype, (n - 1, n)), (k1, k2),
                             (SumAxis(1, k1, 0), k2), tf(ZERO[kind], kind))
        yield 'pt_sum', pt, [ZERO[kind]] * n + [x for r in block for x in r]


def proj(t, kind, dtype):
    from fggs.indices import PatternedTensor
    if isinstance(t, PatternedTensor):
        t = t.to_dense()
    return AG.project_tensor(t, kind, dtype)


def drive_kind(args):
    kind, dtname = args
    import torch
    dtype = getattr(torch, dtname)
    sr = AG.semiring_for(kind, dtype)
    C = CARRIER[kind]
    cases = []
    base = {'sr': C, 'out': 'ok'}
    # --- P1: elementwise under representations
    rows = list(operands(kind, dtype, 'row'))
    cols = list(operands(kind, dtype, 'col'))
    for (ta, a, fa) in rows:
        for (tb, b, fb) in cols:
            if (ta == 'tensor') != (tb == 'tensor'):
                continue
            for op in ('add', 'mul', 'sub'):
                c = dict(base, kind='ew', op=op, A=fa, B=fb, tag=[kind, dtname, op, ta, tb], R=[])
                try:
                    r = getattr(sr, op)(a, b)
                    c['R'] = proj(r, kind, dtype)
                    if op == 'sub':
                        # normative: same as on Tensors holding the same dense values
                        n = int(math.isqrt(len(fa)))
                        rt = sr.sub(tens(fa, kind, dtype, (n, n)), tens(fb, kind, dtype, (n, n)))
                        c['kind'] = 'ewsame'
                        c['Rt'] = proj(rt, kind, dtype)
                except Exception as e:  # noqa
                    c['out'] = 'raise:' + type(e).__name__
                cases.append(c)
    # --- P2: laws on all triples (0-dim tensors)
    P = POINTS[kind]
    s = lambda x: tens([x], kind, dtype).reshape(())
    pj = lambda t: AG.project_value(t.item(), kind, dtype)
    zero, one = sr.from_int(0), sr.from_int(1)
    for a, b, x in itertools.product(P, P, P):
        c = dict(base, kind='law', a=a, b=b, c=x, tag=[kind, dtname, 'law'])
        try:
            A, B, X = s(a), s(b), s(x)
            c.update(addl=pj(sr.add(sr.add(A, B), X)), addr=pj(sr.add(A, sr.add(B, X))),
                     mull=pj(sr.mul(sr.mul(A, B), X)), mulr=pj(sr.mul(A, sr.mul(B, X))),
                     distl=pj(sr.mul(A, sr.add(B, X))), distr=pj(sr.add(sr.mul(A, B), sr.mul(A, X))),
                     ab=pj(sr.add(A, B)), ba=pj(sr.add(B, A)), mab=pj(sr.mul(A, B)), mba=pj(sr.mul(B, A)),
                     a0=pj(sr.add(A, zero)), a1=pj(sr.mul(A, one)), az=pj(sr.mul(A, zero)))
        except Exception as e:  # noqa
            c['out'] = 'raise:' + type(e).__name__
        cases.append(c)
    # --- P3: star, sub, from_int, sum, add_
    for x in P:
        c = dict(base, kind='star', x=x, tag=[kind, dtname, 'star'], r=[0, 0])
        try:
            c['r'] = pj(sr.star(s(x)))
        except Exception as e:  # noqa
            c['out'] = 'raise:' + type(e).__name__
        cases.append(c)
    if kind in ('real', 'log'):
        for q in (0, 2, 3, 4, 8):
            c = dict(base, kind='star4', x=q, tag=[kind, dtname, 'star4'], r=[0, 0])
            try:
                v = q / 4.0
                t = torch.tensor(v if kind == 'real' else (math.log(v) if v > 0 else -math.inf), dtype=dtype)
                c['r'] = pj(sr.star(t))
            except Exception as e:  # noqa
                c['out'] = 'raise:' + type(e).__name__
            cases.append(c)
    for x, y in itertools.product(P, P):
        c = dict(base, kind='sub', x=x, y=y, tag=[kind, dtname, 'sub'], r=[0, 0])
        try:
            c['r'] = pj(sr.add(sr.sub(s(x), s(y)), s(y)))
        except Exception as e:  # noqa
            c['out'] = 'raise:' + type(e).__name__
        cases.append(c)
    for n in range(0, 5):
        for form in ('int', 'tensor'):
            c = dict(base, kind='fromint', n=n, tag=[kind, dtname, 'from_int', form], r=[0, 0])
            try:
                c['r'] = pj(sr.from_int(n if form == 'int' else torch.tensor(n)))
            except Exception as e:  # noqa
                c['out'] = 'raise:' + type(e).__name__
            cases.append(c)
    rng = rng_for(0, 'c08' + kind)
    vecs = [[p] for p in P] + [list(P)] + [[rng.choice(P) for _ in range(rng.randint(2, 5))] for _ in range(12)]
    for xs in vecs:
        c = dict(base, kind='sum', xs=xs, tag=[kind, dtname, 'sum'], sum=[0, 0], addfold=[0, 0])
        try:
            c['sum'] = pj(sr.sum(tens(xs, kind, dtype), dim=0))
            acc = sr.from_int(0).clone()
            for x in xs:
                sr.add_(acc, s(x))
            c['addfold'] = pj(acc)
        except Exception as e:  # noqa
            c['out'] = 'raise:' + type(e).__name__
        cases.append(c)
    return cases


def run(tier, seed):
    o = Outcome(PID, tier, seed)
    o.assumptions = ['carrier = exact sub-carrier of each semiring (small naturals, integer log-weights, +-inf, booleans) plus quarters for star; "every finite float incl. subnormals" is outside a TLC model (see DESIGN.md section 4)',
                     'Log-semiring values are compared through exp with 1e-4 (float32) / 1e-9 (float64) relative tolerance']
    with Scratch() as work:
        r = run_tlc(work / 'r3', 'MC_Semiring', 'INIT Init\nNEXT Next\nINVARIANT Laws\nCHECK_DEADLOCK FALSE\n', workers=1)
        o.add_tlc(r)
        combos = [(k, d) for k in ('real', 'log', 'mp') for d in ('float64', 'float32')] + [('bool', 'bool')]
        cases = [c for cs in pmap(drive_kind, combos, procs=len(combos), chunksize=1) for c in cs]
        verdicts, st, tr, _ = judge_batch(work / 'judge', 'Trace_Semiring', cases, per_shard_min=300)
        o.states += st
        o.transitions += tr
        o.absorb_verdicts(cases, verdicts, load_findings())
        o.exhaustive = True
        kinds = {}
        for c in cases:
            kinds[c['kind']] = kinds.get(c['kind'], 0) + 1
        o.extra['cases_by_kind'] = kinds
        o.extra['carrier_points'] = POINTS
        o.sample(next(c for c in cases if c['kind'] == 'law' and c['a'] == INF))
        o.sample(next(c for c in cases if c['kind'] in ('ew',) and c['tag'][3] == 'pt_diag_z'))
    return o


def replay(path, seed):
    return run('quick', seed)
