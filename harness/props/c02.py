"""C02 -- sum-product of a recursive FGG is the least fixed point, or says otherwise.

gen   : (a) recursive grammars on the dyadic grid built by reverse construction (linear and
        non-linear recursion, mutual recursion, tensor-valued nonterminals) with a candidate least
        fixed point that TLC must PROVE (exact fixed point + contraction bound q < 1);
        (b) seeded recursive grammars over Bool and over integer log-weights <= 0 (weight-one
        cycles included), whose least fixed point TLC computes by Kleene iteration to stabilisation.
drive : sum_products for Real/Log/Viterbi/Bool x {fixed-point, newton, linear} x tol x kmax
        (budgets far too small included), recording value, warnings, exception.
judge : Trace_Recursive (TLC): no warning => value within tol/(1-q) of the proved least fixed
        point (exactly equal on Bool/Viterbi); linear on a non-linearly-recursive grammar raises
        ValueError; otherwise no exception.
"""
from __future__ import annotations
import json, math, warnings
from ..common import *
from .. import ag as AG

PID = 'C02'
TOLS = [1e-2, 1e-4, 1e-6]
FINE = 1 << 40          # residuals against the certificate are recorded in units of 2^-40
KMAXS = [0, 1, 2, 3, 10, 1000]


def interval_fx(v):
    if math.isnan(v):
        return [NAN, NAN]
    if math.isinf(v):
        return [INF, INF] if v > 0 else [NINF, NINF]
    s = v * AG.FXS
    if abs(s) > 8e5:
        return [NONINT, NONINT]
    return [math.floor(s), math.ceil(s)]


def one_run(build, kind, sr_name, method, tol, kmax, dtype, project, tol_scale=1.0, fine=None):
    import torch, fggs
    run = {'sr': sr_name, 'method': method, 'kmax': kmax, 'tolu': max(1, math.ceil(tol * tol_scale * AG.FXS)), 'out': 'ok', 'warned': False, 'res': {},
           'tag': [kind, method, f'tol={tol}', f'kmax={kmax}', str(dtype).replace('torch.', '')]}
    if fine is not None and str(dtype) == 'torch.float64' and tol * tol_scale <= 1.5e-5:
        run['tolf'] = int(math.ceil(tol * tol_scale * FINE))
        run['resid'] = {}
    import sys
    SPM = sys.modules['fggs.sum_product']
    log = getattr(SPM, '_verif_trace', None)
    if log is not None:
        del log[:]
    try:
        g = build()
        if log is not None:
            del log[:]          # (a history may have queried the object while it was being built)
        with warnings.catch_warnings(record=True) as wl:
            warnings.simplefilter('always')
            try:
                with torch.no_grad():
                    sp = fggs.sum_products(g, method=method, semiring=AG.semiring_for(kind, dtype), tol=tol, kmax=kmax)
            finally:
                run['trace'] = [list(list(x) if isinstance(x, tuple) else x for x in ev) for ev in (log or [])]
        run['warned'] = any('index type mismatch' not in str(w.message) for w in wl)      # ANY warning counts as "says otherwise": the wording is not specified
        for el, t in sp.items():
            if el.is_nonterminal:
                run['res'][el.name] = project(t.to_dense())
                if 'resid' in run:
                    run['resid'][el.name] = fine(el.name, t.to_dense())
    except Exception as e:  # noqa
        run['out'] = 'raise:' + type(e).__name__
        run['err'] = str(e)[:160]
        run.pop('resid', None)
        run.pop('tolf', None)
    return run


def fine_residuals(a, value_of):
    """el name, dense tensor -> residuals (observed value - certified least fixed point) in units of 2^-40, clipped"""
    def f(name, t):
        out = []
        for x, c in zip(t.reshape(-1).tolist(), a['cert'][name]):
            v = value_of(float(x))
            d = (v - c / AG.FXS) * FINE if math.isfinite(v) else (1 << 30)
            out.append(int(max(-(1 << 30), min(1 << 30, round(d)))) if not math.isnan(d) else (1 << 30))
        return out
    return f


def drive_fx(args):
    import torch
    seed, i, tier = args
    rng = rng_for(seed, f'c02fx-{i}')
    linear = i % 3 == 0
    a = AG.gen_fx_recursive(rng, linear=linear, max_q=None if i % 7 == 6 else 0.95, patterned=(i % 4 == 1), mutual=(i % 6 == 5))
    runs = []
    combos = []
    for kind in ('real', 'log'):
        for method in ('fixed-point', 'newton', 'linear'):
            for tol in ((TOLS + [0.0]) if tier == 'thorough' else [(TOLS + [0.0])[(i + len(combos)) % 4]]):
                for kmax in (KMAXS if tier == 'thorough' else [KMAXS[(i + len(combos)) % 6], 1000]):
                    combos.append((kind, method, tol, kmax))
    for (kind, method, tol, kmax) in combos:
        dtype = torch.float64 if (i + kmax) % 2 == 0 else torch.float32
        if dtype == torch.float32 and tol < 1e-5:
            dtype = torch.float64
        proj = (lambda t: [interval_fx(float(x)) for x in t.reshape(-1).tolist()]) if kind == 'real' else \
               (lambda t: [interval_fx(math.exp(float(x))) if float(x) < 30 else [INF, INF] for x in t.reshape(-1).tolist()])
        # Log semiring: the stopping criterion bounds the difference of LOG-values by tol, i.e. the difference
        # of values by max(value) (e^tol - 1): the absolute tolerance handed to the judge is scaled accordingly
        scale = 1.0 if kind == 'real' else 1.01 * max(max(v) for v in a['cert'].values()) / AG.FXS
        fine = fine_residuals(a, (lambda v: v) if kind == 'real' else (lambda v: math.exp(v) if v < 30 else math.inf))
        hist = i % 5 == 2 and kmax == 1000
        if hist:
            # a HISTORY on one grammar object: solve while a recursive rule is still missing, add it, solve again (judged)
            rec = [ri for ri, r in enumerate(a['rules']) if any(not a['els'][e['lab']]['t'] for e in r['edges'])]

            def build(kind=kind, dtype=dtype, method=method, rec=rec):
                import fggs
                g, info = AG.build_fgg_fx(a, kind, dtype, defer_rules=[rec[len(rec) // 2]] if rec else 0)
                try:
                    with warnings.catch_warnings():
                        warnings.simplefilter('ignore')
                        with torch.no_grad():
                            fggs.sum_products(g, method='fixed-point' if method == 'linear' else method, semiring=AG.semiring_for(kind, dtype), kmax=50)
                except Exception:
                    pass
                info['add_deferred']()
                return g
        else:
            build = lambda kind=kind, dtype=dtype: AG.build_fgg_fx(a, kind, dtype)[0]
        r = one_run(build, kind, 'fx', method, tol, kmax, dtype, proj, max(scale, 1.0) if kind == 'log' else 1.0, fine=fine)
        if hist:
            r['tag'] = r['tag'] + ['query_then_add_rule']
        runs.append(r)
    # the same iteration at another MAGNITUDE (Log semiring): in a globally linear grammar every constant rule gets a scalar
    # factor exp(-280); all log-values are then shifted by exactly -280 and are judged after shifting back.  A stopping
    # rule that is relative to the size of the values stops far too early here.
    am = AG.with_constant_marker(a) if linear else None
    if am is not None:
        SH = 280.0

        def build_shifted(dtype):
            g = AG.build_fgg_fx(am, 'log', dtype)[0]
            g.factors['lam'].weights = torch.tensor(-SH, dtype=dtype)
            return g
        scale = max(1.0, 1.01 * max(max(v) for v in a['cert'].values()) / AG.FXS)
        projs = lambda t: [interval_fx(math.exp(float(x) + SH)) if float(x) + SH < 30 else [INF, INF] for x in t.reshape(-1).tolist()]
        for method in ('fixed-point', 'newton', 'linear'):
            tol = TOLS[(i + len(runs)) % 3] if tier == 'quick' else None
            for tl in ([tol] if tol else TOLS):
                r = one_run(lambda: build_shifted(torch.float64), 'log', 'fx', method, tl, 1000, torch.float64, projs, scale)
                r['tag'] = r['tag'] + ['shifted_by_-280']
                r['res'].pop('lam', None)
                runs.append(r)
    return {'ag': {k: a[k] for k in ('nls', 'els', 'start', 'rules', 'wfx', 'cert')}, 'runs': runs, 'q_hint': a['q_hint'], 'patterned': a['patterned_eq']}


def drive_exact(args):
    import torch
    seed, i, tier = args
    rng = rng_for(seed, f'c02ex-{i}')
    a = AG.gen_ag(rng, n_nts=(1, 3), max_rules=2, max_nodes=3, max_edges=3, recursion='linear' if i % 3 == 0 else 'any',
                  weights='small', p_norules=0.05, dom_sizes=(1, 2), mp_range=(-3, 0), p_zero=0.2, value_cap=1 << 30)
    runs = []
    for kind, srn in (('bool', 'bool'), ('mp', 'mp')):
        for method in ('fixed-point', 'newton', 'linear'):
            for kmax in ([1000, KMAXS[i % 6]] if tier == 'quick' else KMAXS):
                dtype = torch.bool if kind == 'bool' else (torch.float64 if i % 2 else torch.float32)
                proj = lambda t, kind=kind, dtype=dtype: AG.project_tensor(t, kind, dtype)
                runs.append(one_run(lambda: AG.build_fgg(a, kind, dtype, start_last=(i % 3 == 1))[0], kind, srn, method, 1e-6, kmax, dtype, proj))
    return {'ag': {k: a[k] for k in ('nls', 'els', 'start', 'rules', 'w', 'wmp')}, 'runs': runs, 'q_hint': -1}


def run(tier, seed):
    o = Outcome(PID, tier, seed)
    o.assumptions = ['Real/Log: weights and the least fixed point lie on the dyadic grid 1/1024 by construction; TLC proves the certificate (exact fixed point, Jacobian infinity-norm < 1) or falls back to a sound lower bound',
                     'tolerance of the value clause: tol/(1-q) + 2 grid units; "error vanishes as tol does" is checked at three tolerances, not as a limit',
                     'Viterbi: integer log-weights <= 0; Bool exact']
    nfx, nex = (60, 60) if tier == 'quick' else (500, 600)
    with Scratch() as work:
        cases = pmap(drive_fx, [(seed, i, tier) for i in range(nfx)], chunksize=2) + pmap(drive_exact, [(seed, i, tier) for i in range(nex)], chunksize=2)
        # the solver-driver event log of every call (hook), validated against spec/Solver.tla
        scases = []
        for c in cases:
            gg = {'els': c['ag']['els'], 'rules': [{'lhs': r['lhs'], 'edges': [{'lab': e['lab']} for e in r['edges']]} for r in c['ag']['rules']]}
            for r in c['runs']:
                tr_ = r.pop('trace', None)
                if tr_:
                    scases.append({'ag': gg, 'trace': tr_, 'warned': r['warned'], 'out': 'ok' if r['out'] == 'ok' else 'raise', 'tag': r['tag']})
        # ... and of every sum_products call the repository's OWN tests make (pytest plugin harness/tracer_sp.py): their
        # assertions look at values; the specification looks at what the driver did and whether it told the caller
        rt = repo_tests_traced(work, ['test/test_sum_product.py', 'test/test_readme.py'] if tier == 'quick' else
                               ['test/test_sum_product.py', 'test/test_readme.py', 'test/test_viterbi.py', 'test/test_factorize.py'])
        rcalls = [c for c in rt.get('solver', []) if c.get('trace')]
        o.extra['repo_test_solver_calls_validated'] = len(rcalls)
        scases.extend(rcalls)
        if scases:
            sv, st, tr, _ = judge_batch(work / 'solver', 'Trace_Solver', scases, per_shard_min=100, heap='3g')
            o.states += st
            o.transitions += tr
            o.absorb_verdicts(scases, sv, load_findings(), part='solver_driver')
            o.extra['solver_traces_validated'] = len(scases)
            o.extra['solver_events'] = sum(len(c['trace']) for c in scases)
            o.extra['solver_model_drift'] = sum(1 for v in sv.values() if v.get('drift'))
            ld = {}
            for v in sv.values():
                if v.get('logdrift', 'none') != 'none':
                    ld[v['logdrift']] = ld.get(v['logdrift'], 0) + 1
            o.extra['solver_log_drift'] = ld      # the event log no longer follows the descriptive machine (non-gating)
        verdicts, st, tr, _ = judge_batch(work / 'judge', 'Trace_Recursive', cases, per_shard_min=8, heap='3g')
        o.states += st
        o.transitions += tr
        o.absorb_verdicts(cases, verdicts, load_findings())
        nf = [v for i, v in verdicts.items() if cases[i - 1]['q_hint'] >= 0]
        o.extra['grid_grammars'] = len(nf)
        o.extra['certificates_proved_by_tlc'] = sum(1 for v in nf if v.get('certified'))
        o.extra['uncertified_lower_bound_only'] = sum(1 for v in nf if not v.get('certified'))
        o.extra['runs_judged'] = sum(len(c['runs']) for c in cases)
        o.extra['runs_with_warning'] = sum(1 for c in cases for r in c['runs'] if r['warned'])
        o.extra['runs_raising_valueerror_for_linear'] = sum(1 for c in cases for r in c['runs'] if r['out'] == 'raise:ValueError')
        o.sample({'ag': cases[0]['ag'], 'run': cases[0]['runs'][0]})
    return o


def replay(path, seed):
    return run('quick', seed)
