"""C09 -- semiring linear solvers return the least solution of x = A x + b.

R3    : MC_LinSolve -- on every 2x2 system over the carrier points the value LsLeast computes is a
        solution, dominates every Kleene iterate and is least among all solutions.
gen   : seeded systems (n <= 4; spectral radius < 1 certified on quarters, = 1, > 1, infinite
        entries, zero rows/columns), block structures over <= 3 block indices (scalar, vector and
        2-D blocks; every subset of present blocks; absent diagonal blocks), patterned A and b.
drive : Semiring.solve, PatternedTensor.solve, multi_solve (also transpose=True), multi_mv.
judge : Trace_LinSolve (TLC): least solution by Kleene + divergence closure on nat/mp/bool, by a
        TLC-verified contraction certificate on quarters; arguments unmodified.
"""
from __future__ import annotations
import itertools, json, math, warnings
from ..common import *
from .. import ag as AG
from .. import pt as PT

PID = 'C09'
CARRIER = {'real': 'nat', 'log': 'nat', 'mp': 'mp', 'bool': 'bool'}
ZERO = {'real': 0, 'log': 0, 'mp': NINF, 'bool': 0}


def rand_entry(rng, kind, dens, big):
    if rng.random() > dens:
        return ZERO[kind]
    if kind in ('real', 'log'):
        return rng.choice([1, 1, 2] if big else [1]) if rng.random() > 0.06 else INF
    if kind == 'mp':
        return rng.choice([-2, -1, 0, 0, 1, -1]) if rng.random() > 0.06 else INF
    return 1


def gen_system(rng, kind, n, m):
    dens = rng.choice([0.2, 0.35, 0.5, 0.8])
    big = n <= 3
    A = [rand_entry(rng, kind, dens, big) for _ in range(n * n)]
    bs = []
    for _ in range(m):
        if kind in ('real', 'log'):
            bs.append([rng.choice([0, 0, 1, 2, 3]) if rng.random() > 0.05 else INF for _ in range(n)])
        elif kind == 'mp':
            bs.append([rng.choice([NINF, NINF, -1, 0, 1, 2]) for _ in range(n)])
        else:
            bs.append([rng.choice([0, 1]) for _ in range(n)])
    return A, bs


def gen_cert(rng, n, m):
    """quarters: A4 = 4A with row sums < 4; integer solution x; b4 = 4x - A4 x >= 0"""
    while True:
        A4 = [0] * (n * n)
        for i in range(n):
            budget = 3
            for j in rng.sample(range(n), n):
                v = rng.choice([0, 0, 1, 2]) if budget >= 2 else rng.choice([0, 1]) if budget >= 1 else 0
                A4[i * n + j] = v
                budget -= v
        xs, b4s = [], []
        ok = True
        for _ in range(m):
            x = [rng.choice([0, 1, 2, 3, 4]) for _ in range(n)]
            b4 = [4 * x[i] - sum(A4[i * n + j] * x[j] for j in range(n)) for i in range(n)]
            if min(b4) < 0:
                ok = False
                break
            xs.append(x)
            b4s.append(b4)
        if ok:
            return A4, b4s, xs


def tens(vals, kind, dtype, shape, scale=1):
    import torch
    if kind == 'bool':
        return torch.tensor([bool(v) for v in vals], dtype=torch.bool).reshape(shape)
    out = []
    for v in vals:
        if scale != 1:
            f = v / scale
            out.append(f if kind == 'real' else (math.log(f) if f > 0 else -math.inf))
        else:
            out.append(AG._to_float(v, kind))
    return torch.tensor(out, dtype=dtype).reshape(shape)


def snapshot(objs):
    from fggs.indices import PatternedTensor
    from fggs.multi import MultiTensor
    out = []
    for o in objs:
        if isinstance(o, MultiTensor):
            out.append(sorted((repr(k), snapshot([v])) for k, v in o.items()))
        elif isinstance(o, PatternedTensor):
            out.append((PT.readback(o)['vs'], PT.readback(o)['d'], o.physical.clone().reshape(-1).tolist(), tuple(o.physical.stride())))
        else:
            out.append((o.clone().reshape(-1).tolist(), tuple(o.stride())))
    return json.dumps(out, default=str)


def proj_cols(x, kind, dtype, n):
    """observed solution tensor (n) or (n, m) -> list of columns of intervals"""
    if x.ndim == 1:
        x = x.unsqueeze(1)
    cols = []
    for q in range(x.shape[1]):
        cols.append(AG.project_tensor(x[:, q], kind, dtype))
    return cols


def case_base(kind, dtype, what, n, A, bs, mode='exact', transpose=False, x=None, tag=None):
    return {'sr': CARRIER[kind], 'what': what, 'mode': mode, 'n': n, 'A': A, 'b': bs, 'x': x or [], 'transpose': transpose,
            'out': 'ok', 'unchanged': True, 'X': [], 'tag': [kind, str(dtype).replace('torch.', ''), what] + (tag or [])}


def drive_dense(args):
    import torch
    seed, i = args
    rng = rng_for(seed, f'c09d-{i}')
    kind = ['real', 'log', 'mp', 'bool'][i % 4]
    dtype = torch.float64 if (i // 4) % 2 == 0 else torch.float32
    n = rng.choice([1, 2, 2, 3, 3, 4])
    m = rng.choice([1, 1, 2])
    cert = kind in ('real', 'log') and i % 3 == 0
    sr = AG.semiring_for(kind, dtype)
    if cert:
        A, bs, xs = gen_cert(rng, n, m)
        c = case_base(kind, dtype, 'solve', n, A, bs, 'cert', x=xs)
        a_t = tens(A, kind, dtype, (n, n), 4)
        b_t = tens([bs[q][r] for r in range(n) for q in range(m)], kind, dtype, (n, m), 4)
    else:
        A, bs = gen_system(rng, kind, n, m)
        c = case_base(kind, dtype, 'solve', n, A, bs)
        a_t = tens(A, kind, dtype, (n, n))
        b_t = tens([bs[q][r] for r in range(n) for q in range(m)], kind, dtype, (n, m))
    if m == 1 and rng.random() < 0.5:
        b_t = b_t[:, 0].clone()
    variant = rng.choice(['semiring', 'patterned'])
    c['tag'].append(variant)
    try:
        with warnings.catch_warnings():
            warnings.simplefilter('ignore')
            if variant == 'semiring':
                before = snapshot([a_t, b_t])
                x = sr.solve(a_t, b_t)
                c['unchanged'] = snapshot([a_t, b_t]) == before
            else:
                from fggs.indices import PatternedTensor
                pa, pb = PatternedTensor(a_t), PatternedTensor(b_t)
                before = snapshot([pa, pb])
                x = pa.solve(pb, sr).to_dense()
                c['unchanged'] = snapshot([pa, pb]) == before
        c['X'] = proj_cols(x, kind, dtype, n)
    except Exception as e:  # noqa
        c['out'] = 'raise:' + type(e).__name__
        c['err'] = str(e)[:160]
    return c


def drive_patterned(args):
    """PatternedTensor.solve with genuinely patterned A (typed T x T) and b (T or T x U)"""
    import torch
    seed, i = args
    rng = rng_for(seed, f'c09p-{i}')
    kind = ['real', 'mp', 'bool', 'log'][i % 4]
    dtype = torch.float64
    sr = AG.semiring_for(kind, dtype)
    T = PT.gen_type(rng, 4, depth=1)
    n = PT.numel_type(T)
    if n == 0:
        T, n = ('n', 2), 2
    U = ('n', rng.choice([1, 2]))
    twod = rng.random() < 0.4
    vals = {'real': [0, 0, 1, 1, 2], 'log': [0, 0, 1, 1, 2], 'mp': [NINF, NINF, -1, 0, 1], 'bool': [0, 1]}[kind]
    # every other case: a and b draw their physical axes from ONE typed pool, so b may name PhysicalAxis objects of a
    # (a PhysicalAxis is only a name; inside multi_solve blocks created by fill-in share the axes of their factors)
    shared = i % 2 == 1
    pool = PT.Pool(rng, 0.5, 1) if shared else None
    # (every fourth case: a default that is NOT the semiring zero -- the positions outside the sparsity pattern then
    #  carry weight too, and the pattern of the solution has to be computed from the tensors as they are denoted)
    nzd = i % 4 == 2
    da = rng.choice(vals) if nzd and rng.random() < 0.7 else ZERO[kind]
    db = rng.choice(vals) if nzd and rng.random() < 0.7 else ZERO[kind]
    sa = PT.gen_pattern(rng, [T, T], default=da, start_id=1, pool=pool)
    sa['ph'] = [rng.choice(vals) for _ in sa['ph']]
    sb = PT.gen_pattern(rng, [T, U] if twod else [T], default=db, start_id=50, pool=pool)
    sb['ph'] = [rng.choice(vals) for _ in sb['ph']]
    tagx = (['shared_axes'] if shared else []) + (['nonzero_default'] if nzd else [])
    if i % 6 == 5:
        # the "swap" matrix a[(p,q),(q,p)] = w[p,q] against b[(p,0)] (one-hot second component), b naming a's axis k or not
        m = rng.choice([2, 3])
        n = m * m
        P = lambda i_: {'k': 'P', 'id': i_, 'n': m}
        sa = {'ps': [{'id': 1, 'n': m}, {'id': 2, 'n': m}], 'vs': [{'k': 'X', 'fs': [P(1), P(2)]}, {'k': 'X', 'fs': [P(2), P(1)]}], 'd': ZERO[kind],
              'ph': [rng.choice(vals + [vals[-1]]) for _ in range(m * m)]}
        if kind in ('real', 'log'):
            sa['ph'] = [1 if (q // m) < (q % m) else 0 for q in range(m * m)]       # w[p,q] only for p < q: no cycle (p,q) -> (q,p) -> (p,q)
        kb = 1 if shared else 7
        onehot = {'k': 'S', 'b': 0, 't': {'k': 'X', 'fs': []}, 'a': m - 1}
        sb = {'ps': [{'id': kb, 'n': m}], 'vs': [{'k': 'X', 'fs': [P(kb), onehot]}], 'd': ZERO[kind],
              'ph': [rng.choice([v for v in vals if v != ZERO[kind]] or vals) for _ in range(m)]}
        twod = False
        tagx = tagx + ['swap']
    if i % 3 == 0:
        # pair-indexed systems: unknowns are pairs (i,j), A[(i,j),(j,l)] = w[i,j,l], b sparse: the support
        # of A^k b keeps growing for several rounds
        m = rng.choice([2, 2, 3])
        n = m * m
        P = lambda i_: {'k': 'P', 'id': i_, 'n': m}
        sa = {'ps': [{'id': 1, 'n': m}, {'id': 2, 'n': m}, {'id': 3, 'n': m}],
              'vs': [{'k': 'X', 'fs': [P(1), P(2)]}, {'k': 'X', 'fs': [P(2), P(3)]}], 'd': ZERO[kind],
              'ph': [rng.choice(vals + [vals[-1]]) for _ in range(m ** 3)]}
        if kind in ('real', 'log'):
            # keep it convergent-or-infinite on the exact carrier: entries 0/1 only and acyclic-ish sparsity
            sa['ph'] = [1 if (q // (m * m)) < ((q // m) % m) and rng.random() < 0.8 else 0 for q in range(m ** 3)]
        onehot = {'k': 'S', 'b': 0, 't': {'k': 'X', 'fs': []}, 'a': m - 1}
        sb = {'ps': [], 'vs': [{'k': 'X', 'fs': [onehot, dict(onehot)]}], 'd': ZERO[kind], 'ph': [vals[-1] if kind != 'bool' else 1]}
        twod = False
    mk = lambda st: PT.build({'ps': st['ps'], 'vs': st['vs'], 'd': AG._to_float(st['d'], kind), 'ph': [AG._to_float(v, kind) for v in st['ph']]},
                             torch.bool if kind == 'bool' else dtype)
    c = case_base(kind, dtype, 'pt_solve', n, [], [], tag=['patterned_operands'] + tagx)
    try:
        axes = {}
        mk = lambda st: PT.build({'ps': st['ps'], 'vs': st['vs'], 'd': AG._to_float(st['d'], kind), 'ph': [AG._to_float(v, kind) for v in st['ph']]},
                                 torch.bool if kind == 'bool' else dtype, axes=(axes if shared else None))
        pa, pb = mk(sa), mk(sb)
        from .c07 import to_carrier
        c['A'] = to_carrier(pa.to_dense(), kind)
        bd = pb.to_dense()
        if bd.ndim == 1:
            bd = bd.unsqueeze(1)
        c['b'] = [to_carrier(bd[:, q], kind) for q in range(bd.shape[1])]
        before = snapshot([pa, pb])
        with warnings.catch_warnings():
            warnings.simplefilter('ignore')
            x = pa.solve(pb, sr).to_dense()
        c['unchanged'] = snapshot([pa, pb]) == before
        c['X'] = proj_cols(x, kind, dtype, n)
    except Exception as e:  # noqa
        c['out'] = 'raise:' + type(e).__name__
        c['err'] = str(e)[:160]
    return c


BLOCK_SHAPES = [(), (), (2,), (1,), (2, 1), (1, 2), (3,)]
BLOCK_SHAPES_ND = [(2, 2), (2, 2), (3, 2), (2, 3), (2, 1, 2), (), (2,)]      # index sets with >= 2 dimensions of size >= 2


def drive_multi(args):
    import torch
    from fggs.multi import MultiTensor, multi_solve, multi_mv
    from fggs.indices import PatternedTensor
    seed, i = args
    rng = rng_for(seed, f'c09m-{i}')
    kind = ['real', 'log', 'mp', 'bool'][i % 4]
    dtype = torch.float64 if (i // 4) % 2 == 0 else torch.float32
    sr = AG.semiring_for(kind, dtype)
    what = 'multi_mv' if i % 5 == 4 else 'multi_solve'
    transpose = (i // 8) % 2 == 1
    while True:
        keys = ['x', 'y', 'z'][:rng.randint(1, 3)]
        nd = i % 6 == 2
        shapes = {k: rng.choice(BLOCK_SHAPES_ND if nd else BLOCK_SHAPES) for k in keys}
        sizes = {k: int(math.prod(shapes[k])) for k in keys}
        n = sum(sizes.values())
        if 1 <= n <= (7 if nd else 4) and (not nd or any(len(shapes[k]) >= 2 for k in keys)):
            break
    off, o = {}, 0
    for k in keys:
        off[k] = o
        o += sizes[k]
    cert = kind in ('real', 'log') and i % 3 == 0 and what == 'multi_solve'
    offdiag = what == 'multi_solve' and i % 4 == 1
    if offdiag:
        # three scalar unknowns without diagonal blocks, every off-diagonal block present: the
        # diagonal blocks only come into being during elimination
        keys = ['x', 'y', 'z']
        shapes = {k: () for k in keys}
        sizes = {k: 1 for k in keys}
        n = 3
        off, o_ = {}, 0
        for k in keys:
            off[k] = o_
            o_ += 1
    if cert or (offdiag and kind in ('real', 'log')):
        cert = True
        while True:
            A, bs, xs = gen_cert(rng, n, 1)
            if not offdiag:
                break
            if all(A[r * n + r] == 0 for r in range(n)) and all(A[r * n + c_] != 0 for r in range(n) for c_ in range(n) if r != c_):
                break
            # force the structure and recompute b for the same integer solution
            x = xs[0]
            A = [0 if r == c_ else 1 for r in range(n) for c_ in range(n)]
            b4 = [4 * x[r] - sum(A[r * n + c_] * x[c_] for c_ in range(n)) for r in range(n)]
            if min(b4) >= 0:
                bs = [b4]
                break
        scale = 4
    else:
        A, bs = gen_system(rng, kind, n, 1)
        xs, scale = None, 1
    if cert and transpose:
        # the certified system is x = A x + b; the library is handed M with M^T = A
        A = [A[j * n + i_] for i_ in range(n) for j in range(n)]
    b = bs[0]
    z = ZERO[kind]
    tshapes = {k: torch.Size(shapes[k]) for k in keys}
    ma = MultiTensor((tshapes, tshapes), sr)
    mb = MultiTensor(tshapes, sr)
    present = []
    for kx in keys:
        for ky in keys:
            blk = [A[(off[kx] + r) * n + off[ky] + c_] for r in range(sizes[kx]) for c_ in range(sizes[ky])]
            if all(v == z for v in blk) and rng.random() < 0.8:
                continue
            ma[kx, ky] = PatternedTensor(tens(blk, kind, dtype, shapes[kx] + shapes[ky], scale))
            present.append(kx + ky)
    for k in keys:
        blk = b[off[k]:off[k] + sizes[k]]
        if all(v == z for v in blk) and rng.random() < 0.8:
            continue
        mb[k] = PatternedTensor(tens(blk, kind, dtype, shapes[k], scale))
    c = case_base(kind, dtype, what, n, A, bs, 'cert' if cert else 'exact', transpose, xs,
                  tag=['blocks=' + ','.join(f'{k}{list(shapes[k])}' for k in keys), 'present=' + ','.join(present), 'T' if transpose else 'N'])
    try:
        before = snapshot([ma, mb])
        with warnings.catch_warnings():
            warnings.simplefilter('ignore')
            res = multi_solve(ma, mb, transpose=transpose) if what == 'multi_solve' else multi_mv(ma, mb, transpose=transpose)
        c['unchanged'] = snapshot([ma, mb]) == before
        col = []
        for k in keys:
            if k in res:
                col += AG.project_tensor(res[k].to_dense().reshape(-1), kind, dtype)
            else:
                col += [[z, z]] * sizes[k]
        c['X'] = [col]
    except Exception as e:  # noqa
        c['out'] = 'raise:' + type(e).__name__
        c['err'] = str(e)[:160]
    return c


def drive_near_one(args):
    """Log semiring, a cycle whose weight is 1 - 2^-k (log-weight log1p(-2^-k), for large k simply -2^-k, down to the
    smallest subnormal): the least solution of x = a x + 1 is 2^k, i.e. k ln 2 in the log domain.  One unknown with a
    self-loop, and two unknowns on a 2-cycle; through Semiring.solve, PatternedTensor.solve and multi_solve."""
    import torch
    from fggs.indices import PatternedTensor
    from fggs.multi import MultiTensor, multi_solve
    k, dtname, shape = args
    dtype = getattr(torch, dtname)
    sr = AG.semiring_for('log', dtype)
    c = {'what': 'near_one', 'k': k, 'obs': [], 'out': 'ok', 'unchanged': True, 'tag': ['log', dtname, 'near_one', shape]}
    ninf = -math.inf
    try:
        x = math.log1p(-2.0 ** -k)
        if shape == 'loop':
            a = torch.tensor([[x]], dtype=dtype)
            b = torch.tensor([0.0], dtype=dtype)
            want = [0]
        else:
            h = -2.0 ** -(k + 1)                       # two edges of log-weight -2^-(k+1): the cycle weighs exp(-2^-k)
            a = torch.tensor([[ninf, h], [h, ninf]], dtype=dtype)
            b = torch.tensor([0.0, ninf], dtype=dtype)
            want = [0, 1]
        if float(a.max()) == 0.0:
            return None                                # not representable in this format: the cycle would weigh exactly 1
        before = snapshot([a, b])
        with warnings.catch_warnings():
            warnings.simplefilter('ignore')
            obs = []
            r1 = sr.solve(a, b)
            obs += [float(r1[i]) for i in want]
            r2 = PatternedTensor(a).solve(PatternedTensor(b), sr).to_dense()
            obs += [float(r2[i]) for i in want]
            n = a.shape[0]
            shp = {j: torch.Size(()) for j in range(n)}
            A = MultiTensor((shp, shp), sr)
            B = MultiTensor(shp, sr)
            for i_ in range(n):
                if float(b[i_]) != ninf:
                    B[i_] = PatternedTensor(b[i_].clone(), default=ninf)
                for j_ in range(n):
                    if float(a[i_, j_]) != ninf:
                        A[i_, j_] = PatternedTensor(a[i_, j_].clone(), default=ninf)
            r3 = multi_solve(A, B)
            obs += [float(r3[i].to_dense()) for i in want]
        c['unchanged'] = snapshot([a, b]) == before
        enc = lambda v: NAN if math.isnan(v) else (INF if v == math.inf else (NINF if v == -math.inf else int(round(v * 1000))))
        c['obs'] = [enc(v) for v in obs]
    except Exception as e:  # noqa
        c['out'] = 'raise:' + type(e).__name__
        c['err'] = str(e)[:160]
    return c


def near_one_jobs(tier):
    ks64 = [1, 2, 3, 10, 24, 25, 30, 52, 53, 54, 55, 60, 64, 100, 500, 1000, 1022, 1023, 1073, 1074]
    ks32 = [1, 2, 3, 10, 23, 24, 25, 26, 30, 60, 100, 126, 127, 148, 149]
    if tier == 'thorough':
        ks64, ks32 = list(range(1, 1075, 7)) + ks64, list(range(1, 150)) 
    jobs = [(k, 'float64', sh) for k in ks64 for sh in ('loop', 'cycle2') if not (sh == 'cycle2' and (k < 30 or k >= 1074))]
    jobs += [(k, 'float32', sh) for k in ks32 for sh in ('loop', 'cycle2') if not (sh == 'cycle2' and (k < 30 or k >= 149))]
    return jobs


def run(tier, seed):
    o = Outcome(PID, tier, seed)
    o.assumptions = ['entries on the exact carriers; real-valued systems with spectral radius < 1 only through quarter-valued matrices with a TLC-verified contraction certificate and an integer solution',
                     'n <= 4 unknowns (<= 7 with multi-dimensional index sets such as (2,2), (3,2), (2,1,2)); <= 3 block indices']
    with Scratch() as work:
        cfg = 'INIT Init\nNEXT Next\nCONSTANTS N = 2\nINVARIANT IsSolution\nINVARIANT AboveIterates\nINVARIANT LeastAmongSolutions\nINVARIANT StructuralAgreesWithIteration\nCHECK_DEADLOCK FALSE\n'
        if tier == 'thorough':
            r = run_tlc(work / 'r3', 'MC_LinSolve', cfg, workers=1, heap='4g')
            o.add_tlc(r)
            o.extra['r3'] = 'LsLeast is a solution, dominates Kleene iterates, least among solutions: all 2x2 systems over the carrier points'
        nd, npat, nm = (400, 200, 480) if tier == 'quick' else (6000, 3000, 8000)
        cases = pmap(drive_dense, [(seed, i) for i in range(nd)], chunksize=8) \
            + pmap(drive_patterned, [(seed, i) for i in range(npat)], chunksize=8) \
            + pmap(drive_multi, [(seed, i) for i in range(nm)], chunksize=8)
        near = [c for c in pmap(drive_near_one, near_one_jobs(tier), chunksize=8) if c is not None]
        o.extra['near_radius_of_convergence_cases'] = len(near)
        cases = cases + near
        verdicts, st, tr, _ = judge_batch(work / 'judge', 'Trace_LinSolve', cases, per_shard_min=80, heap='3g')
        o.states += st
        o.transitions += tr
        for v in verdicts.values():
            if v.get('v') == 'GeneratorGaveUncertifiedSystem':
                raise MachineryFailure('certificate generator produced a system TLC does not certify')
        o.absorb_verdicts(cases, verdicts, load_findings())
        kinds = {}
        for c in cases:
            k = c['what'] + ':' + c.get('mode', '') + (':T' if c.get('transpose') else '')
            kinds[k] = kinds.get(k, 0) + 1
        o.extra['cases_by_solver'] = kinds
        o.extra['distinct_block_structures'] = len({(c['tag'][3], c['tag'][4]) for c in cases if c['what'].startswith('multi')})
        o.extra['systems_with_infinite_solution_entry'] = sum(1 for c in cases if any(iv == [INF, INF] for col in c.get('X', []) for iv in col))
        o.sample(next(c for c in cases if c['what'] == 'multi_solve' and c['n'] >= 3))
    return o


def replay(path, seed):
    return run('quick', seed)
