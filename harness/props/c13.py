"""C13 -- equal and allclose decide (approximate) equality of the denoted tensors.

gen   : seeded pairs of typed patterns over a common typed shape: independent; clone / freshen /
        densified / re-patterned copies (same values under another sparsity pattern); one cell
        perturbed by a tolerance-boundary amount (backed in both, in one, in none); defaults equal,
        different-but-covered, NaN; MultiTensors with absent blocks.
drive : PatternedTensor.equal (both directions), allclose over a tolerance grid, equal_default,
        allclose_default, MultiTensor.allclose.
judge : Trace_Tensor (TLC) decides each question on the denotations PtDense computed by the
        specification from the structures alone.
"""
from __future__ import annotations
import copy, json, math, warnings
from ..common import *
from .. import pt as PT
from . import c06

PID = 'C13'
TOLS = [(0.0, 0.0), (0.0, 0.25), (0.0, 0.5), (0.0, 1.0), (0.5, 0.0), (0.5, 0.25)]


def quarter_values(rng, st):
    st['ph'] = [rng.choice([0.0, 0.25, 0.5, 1.0, 1.5, 2.0, 3.0, -1.0]) for _ in st['ph']]
    return st


def equal_case(t_st, u_st, dtype, tag):
    import torch
    c = {'kind': 'equal', 't': PT.encode_struct(t_st), 'u': PT.encode_struct(u_st), 'out': 'ok', 'equal': False, 'equal_rev': False,
         'close': [], 'closedef': [], 'tdef': False, 'tag': tag}
    try:
        with warnings.catch_warnings():
            warnings.simplefilter('ignore')
            t, u = PT.build(t_st, dtype), PT.build(u_st, dtype, 'transposed')
            c['t'], c['u'] = PT.readback(t), PT.readback(u)
            c['equal'], c['equal_rev'] = bool(t.equal(u)), bool(u.equal(t))
            for rtol, atol in TOLS:
                for eqnan in (False, True):
                    c['close'].append({'rtol': int(rtol * 1000), 'atol': int(atol * 1000), 'eqnan': eqnan,
                                       'r': bool(t.allclose(u, rtol=rtol, atol=atol, equal_nan=eqnan))})
            c['tdef'] = bool(t.equal_default())
            for rtol, atol in TOLS:
                c['closedef'].append({'rtol': int(rtol * 1000), 'atol': int(atol * 1000), 'r': bool(t.allclose_default(rtol=rtol, atol=atol))})
    except Exception as e:  # noqa
        c['out'] = 'raise:' + type(e).__name__
        c['err'] = str(e)[:150]
    return c


def tiling_cases(rng, dtype):
    """two patterns with DISJOINT supports that together cover the whole shape (each backs one summand of a disjoint
    union), defaults that differ, and stored values equal or close to the OTHER tensor's default: the defaults are
    invisible, the dense tensors are equal / close although the patterns share nothing"""
    cases = []
    for _ in range(4):
        na, nb = rng.choice([1, 2]), rng.choice([1, 2])
        m = rng.choice([0, 2])                      # an optional second, dense axis
        dt, du = rng.choice([(0.0, 1.0), (1.0, 0.0), (0.5, 3.0), (2.0, -1.0)])
        eps = rng.choice([0.0, 0.0, 0.25])
        def mk(b, size, a, default, val, sid):
            term = {'k': 'P', 'id': sid, 'n': size} if size > 1 else {'k': 'X', 'fs': []}
            ps = [{'id': sid, 'n': size}] if size > 1 else []
            vs = [{'k': 'S', 'b': b, 't': term, 'a': a}]
            cnt = size
            if m:
                ps.append({'id': sid + 1, 'n': m})
                vs.append({'k': 'P', 'id': sid + 1, 'n': m})
                cnt *= m
            return {'ps': ps, 'vs': vs, 'd': default, 'ph': [val] * cnt}
        t = mk(0, na, nb, dt, du + eps, 1)          # backs the first summand, stores (about) u's default
        u = mk(na, nb, 0, du, dt, 50)               # backs the second summand, stores t's default
        cases.append(equal_case(t, u, dtype, ['tiling', 'eps' if eps else 'exact']))
        cases.append(equal_case(u, t, dtype, ['tiling', 'rev', 'eps' if eps else 'exact']))
    return cases


def drive_shape(args):
    import torch
    types, seed, n = args
    rng = rng_for(seed, 'c13' + repr(types))
    cases = []
    dtype = torch.float64
    cases.extend(tiling_cases(rng, dtype))
    for i in range(n):
        d = rng.choice([0.0, 0.0, 1.0, 0.5, math.inf, -math.inf])
        a = quarter_values(rng, PT.gen_pattern(rng, types, default=d, start_id=1))
        # (1) independent
        b = quarter_values(rng, PT.gen_pattern(rng, types, default=rng.choice([d, d, 0.0, 1.0]), start_id=100))
        cases.append(equal_case(a, b, dtype, ['independent']))
        # (2) same tensor under another pattern (equal iff a is default outside the new support)
        r = PT.repattern(rng, a, types)
        cases.append(equal_case(a, r, dtype, ['repatterned']))
        # (3) one cell of the re-patterned copy perturbed by a tolerance-boundary amount
        if r['ph']:
            r2 = copy.deepcopy(r)
            k = rng.randrange(len(r2['ph']))
            if math.isfinite(r2['ph'][k]):
                r2['ph'][k] += rng.choice([0.25, 0.5, 1.0, -0.25])
            cases.append(equal_case(a, r2, dtype, ['perturbed_cell']))
        # (4) only the defaults differ (visible iff some cell is backed by neither)
        r3 = copy.deepcopy(r)
        r3['d'] = rng.choice([x for x in [0.0, 1.0, 0.5, math.inf] if x != r['d']])
        cases.append(equal_case(a, r3, dtype, ['default_differs']))
        # (5) identical structure and values (the object against a rebuilt twin)
        cases.append(equal_case(a, copy.deepcopy(a), dtype, ['twin']))
        # (6) NaN inside: equal is false on NaN, allclose(equal_nan) may be true
        if a['ph'] and i % 3 == 0:
            an = copy.deepcopy(a)
            an['ph'][0] = math.nan
            cases.append(equal_case(an, copy.deepcopy(an), dtype, ['nan']))
        # (6b) a NaN DEFAULT (what .grad uses for entries that are not parameters) against a re-patterned / denser copy
        # that STORES those NaNs: equal under equal_nan=True, in both directions
        if i % 2 == 0:
            an = quarter_values(rng, PT.gen_pattern(rng, types, default=math.nan, start_id=1))
            rn = PT.repattern(rng, an, types)
            cases.append(equal_case(rn, an, dtype, ['nan_default']))
            cases.append(equal_case(an, rn, dtype, ['nan_default', 'rev']))
            dn = {'ps': [{'id': 900 + j, 'n': s_} for j, s_ in enumerate(PT.vshape(an))],
                  'vs': [{'k': 'P', 'id': 900 + j, 'n': s_} for j, s_ in enumerate(PT.vshape(an))], 'd': math.nan, 'ph': None}
            if all(s_ > 1 for s_ in PT.vshape(an)):
                sa = PT.support_map(an)
                import itertools
                dn['ph'] = [an['ph'][sa[v]] if v in sa else math.nan for v in itertools.product(*[range(s_) for s_ in PT.vshape(an)])]
                cases.append(equal_case(dn, an, dtype, ['nan_default', 'densified']))
                cases.append(equal_case(an, dn, dtype, ['nan_default', 'densified', 'rev']))
    # clone / freshen / densify of the real object
    from fggs.indices import PatternedTensor
    for i in range(2):
        a = quarter_values(rng, PT.gen_pattern(rng, types, default=rng.choice([0.0, 1.0]), start_id=1))
        try:
            t = PT.build(a, dtype)
            for name, u in (('clone', t.clone()), ('freshen', t.freshen()), ('densified', PatternedTensor(t.to_dense(), default=a['d'])), ('self', t)):
                c = {'kind': 'equal', 't': PT.readback(t), 'u': PT.readback(u), 'out': 'ok', 'equal': bool(t.equal(u)), 'equal_rev': bool(u.equal(t)),
                     'close': [{'rtol': 0, 'atol': 0, 'eqnan': False, 'r': bool(t.allclose(u, rtol=0., atol=0.))}], 'closedef': [],
                     'tdef': bool(t.equal_default()), 'tag': [name]}
                cases.append(c)
        except Exception as e:  # noqa
            cases.append({'kind': 'equal', 't': PT.encode_struct(a), 'u': PT.encode_struct(a), 'out': 'raise:' + type(e).__name__,
                          'equal': False, 'equal_rev': False, 'close': [], 'closedef': [], 'tdef': False, 'tag': ['clone']})
    # (7) a tensor against VIEWS OF ITSELF that share its physical axes in other roles (transpose / permute keep
    # the PhysicalAxis objects): the two operands are not disjoint and must be renamed apart before unification
    for i in range(max(2, n // 2)):
        a = quarter_values(rng, PT.gen_pattern(rng, types, default=rng.choice([0.0, 1.0, -2.0]), start_id=1))
        if rng.random() < 0.5 and a['ph']:
            # make the denotation symmetric-ish more often: few distinct values
            a['ph'] = [rng.choice([0.0, 1.0]) for _ in a['ph']]
        try:
            with warnings.catch_warnings():
                warnings.simplefilter('ignore')
                t = PT.build(a, dtype)
                nd = t.dim()
                views = []
                if nd >= 2:
                    views.append(('view_T', t.T))
                    for i1 in range(nd):
                        for i2 in range(i1 + 1, nd):
                            if t.size()[i1] == t.size()[i2]:
                                views.append((f'view_transpose', t.transpose(i1, i2)))
                    if nd >= 3:
                        perm = list(range(nd))
                        rng.shuffle(perm)
                        views.append(('view_permute', t.permute(perm)))
                for name, u in views[:4]:
                    c = {'kind': 'equal', 't': PT.readback(t), 'u': PT.readback(u), 'out': 'ok', 'equal': False, 'equal_rev': False,
                         'close': [], 'closedef': [], 'tdef': bool(t.equal_default()), 'tag': [name]}
                    try:
                        c['equal'], c['equal_rev'] = bool(t.equal(u)), bool(u.equal(t))
                        for rtol, atol in TOLS[:3]:
                            c['close'].append({'rtol': int(rtol * 1000), 'atol': int(atol * 1000), 'eqnan': False,
                                               'r': bool(t.allclose(u, rtol=rtol, atol=atol))})
                    except Exception as e:  # noqa
                        c['out'] = 'raise:' + type(e).__name__
                        c['err'] = str(e)[:150]
                    cases.append(c)
        except Exception as e:  # noqa
            raise MachineryFailure(f'view family: could not build {a!r}: {e!r}')
    return cases


def view_cases(seed, n):
    """(8) tensors that DO equal some of their own views: symmetric matrices (dense, embedded block with a
    non-zero default, diagonal, product axes with swapped factors) and symmetric 3-way tensors, against
    t.T / transpose / permute, which share the PhysicalAxis objects of t in other roles."""
    import torch, itertools
    rng = rng_for(seed, 'c13views')
    cases = []
    P = lambda i, k: {'k': 'P', 'id': i, 'n': k}
    for i in range(n):
        k = rng.choice([2, 3])
        d = rng.choice([0.0, -2.0, 1.0])
        sym = rng.random() < 0.7
        M = [[float(rng.choice([1, 2, 3, 4, 5])) for _ in range(k)] for _ in range(k)]
        if sym:
            for a in range(k):
                for b in range(a):
                    M[a][b] = M[b][a]
        flat = [x for r in M for x in r]
        form = i % 5
        if form == 0:
            st = {'ps': [P(1, k), P(2, k)], 'vs': [P(1, k), P(2, k)], 'd': d, 'ph': flat}
        elif form == 1:
            b_, a_ = rng.choice([(1, 0), (0, 1), (1, 1), (2, 0)])
            st = {'ps': [P(1, k), P(2, k)], 'vs': [{'k': 'S', 'b': b_, 't': P(1, k), 'a': a_}, {'k': 'S', 'b': b_, 't': P(2, k), 'a': a_}], 'd': d, 'ph': flat}
        elif form == 2:
            st = {'ps': [P(1, k)], 'vs': [P(1, k), P(1, k)], 'd': d, 'ph': flat[:k]}
        elif form == 3:
            st = {'ps': [P(1, k), P(2, k)], 'vs': [{'k': 'X', 'fs': [P(1, k), P(2, k)]}, {'k': 'X', 'fs': [P(2, k), P(1, k)]}], 'd': d, 'ph': flat}
        else:
            T3 = {}
            for q in itertools.product(range(k), repeat=3):
                key = tuple(sorted(q)) if sym else q
                T3.setdefault(key, float(rng.choice([1, 2, 3, 4])))
            ph3 = [T3[tuple(sorted(q)) if sym else q] for q in itertools.product(range(k), repeat=3)]
            st = {'ps': [P(1, k), P(2, k), P(3, k)], 'vs': [P(1, k), P(2, k), P(3, k)], 'd': d, 'ph': ph3}
        try:
            with warnings.catch_warnings():
                warnings.simplefilter('ignore')
                t = PT.build(st, torch.float64, 'transposed' if i % 2 else 'contig')
                views = [('view_T', t.T), ('view_transpose', t.transpose(0, 1))]
                if t.dim() == 3:
                    views += [('view_permute', t.permute((1, 2, 0))), ('view_transpose', t.transpose(0, 2))]
                for name, u in views:
                    c = {'kind': 'equal', 't': PT.readback(t), 'u': PT.readback(u), 'out': 'ok', 'equal': False, 'equal_rev': False,
                         'close': [], 'closedef': [], 'tdef': bool(t.equal_default()), 'tag': [name]}
                    try:
                        c['equal'], c['equal_rev'] = bool(t.equal(u)), bool(u.equal(t))
                        for rtol, atol in TOLS[:3]:
                            c['close'].append({'rtol': int(rtol * 1000), 'atol': int(atol * 1000), 'eqnan': False,
                                               'r': bool(t.allclose(u, rtol=rtol, atol=atol))})
                    except Exception as e:  # noqa
                        c['out'] = 'raise:' + type(e).__name__
                        c['err'] = str(e)[:150]
                    cases.append(c)
        except Exception as e:  # noqa
            raise MachineryFailure(f'view family: could not build {st!r}: {e!r}')
    return cases


def multi_cases(seed, n):
    import torch
    from fggs.multi import MultiTensor
    from fggs.semirings import RealSemiring
    rng = rng_for(seed, 'c13multi')
    out = []
    sr = RealSemiring(dtype=torch.float64)
    for i in range(n):
        keys = ['x', 'y', 'z'][:rng.randint(1, 3)]
        types = {k: [('n', rng.choice([1, 2, 3])) for _ in range(rng.choice([0, 1, 2]))] for k in keys}
        shapes = {k: torch.Size([ty[1] for ty in types[k]]) for k in keys}
        A, B = MultiTensor(shapes, sr), MultiTensor(shapes, sr)
        tol = rng.choice([0.0, 0.25, 0.5])
        blocks = []
        for k in keys:
            ent = {'shape': [int(s) for s in shapes[k]], 'a': {'absent': True, 'st': None}, 'b': {'absent': True, 'st': None}}
            base = quarter_values(rng, PT.gen_pattern(rng, types[k], default=0.0, start_id=1))
            zeroish = rng.random() < 0.4
            if zeroish:
                base['ph'] = [rng.choice([0.0, 0.0, 0.25]) for _ in base['ph']]
            for side, M, sid in (('a', A, 1), ('b', B, 50)):
                if rng.random() < 0.3:
                    continue
                st = copy.deepcopy(base) if rng.random() < 0.7 else quarter_values(rng, PT.gen_pattern(rng, types[k], default=0.0, start_id=sid))
                p = PT.build(st, torch.float64)
                M[k] = p
                ent[side] = {'absent': False, 'st': PT.readback(p)}
            for side in ('a', 'b'):
                if ent[side]['st'] is None:
                    ent[side]['st'] = PT.encode_struct({'ps': [], 'vs': [], 'd': 0.0, 'ph': [0.0]})
            blocks.append(ent)
        c = {'kind': 'multi', 'blocks': blocks, 'tol': int(tol * 1000), 'zero': 0, 'out': 'ok', 'r': False, 'tag': ['multi']}
        try:
            c['r'] = bool(A.allclose(B, tol))
        except Exception as e:  # noqa
            c['out'] = 'raise:' + type(e).__name__
        out.append(c)
    return out


def run(tier, seed):
    o = Outcome(PID, tier, seed)
    o.assumptions = ['values are multiples of 1/4 and tolerances from a dyadic grid, so torch.allclose is decided exactly by integer arithmetic in TLC',
                     'typed patterns as in C06']
    rng = rng_for(seed, 'c13')
    nshapes, n = (24, 6) if tier == 'quick' else (200, 10)
    shapes = c06.typed_shapes(rng, nshapes)
    with Scratch() as work:
        res = pmap(drive_shape, [(s, seed * 100000 + i, n) for i, s in enumerate(shapes)], chunksize=1)
        cases = [c for cs in res for c in cs] + multi_cases(seed, 200 if tier == 'quick' else 3000) \
            + view_cases(seed, 60 if tier == 'quick' else 600)
        verdicts, st, tr, _ = judge_batch(work / 'judge', 'Trace_Tensor', cases, per_shard_min=100, heap='3g')
        o.states += st
        o.transitions += tr
        o.absorb_verdicts(cases, verdicts, load_findings())
        tags = {}
        for c in cases:
            k = c['tag'][0] + (':equal' if c.get('equal') or c.get('r') else ':unequal')
            tags[k] = tags.get(k, 0) + 1
        o.extra['cases_by_relation_and_answer'] = tags
        o.sample(next(c for c in cases if c['tag'][0] == 'repatterned'))
    return o


def replay(path, seed):
    return run('quick', seed)
