"""C11 -- solver options change cost, never the answer.

gen   : seeded non-recursive grammars (natural weights) and TLC-certified recursive grammars on
        the dyadic grid.
drive : the full configuration matrix -- method x j_precompute x dtype x semiring (Real, Log,
        Bool, Viterbi on the same log-weights) and gradients -- executed by worker processes
        started as `python`, `python -O` and `python -OO`; bin/sum_product.py itself under -OO on
        JSON-serialised grammars with -d -G and with/without -j.
judge : Trace_Config / Trace_Recursive (TLC): every configuration yields the ONE value (and
        gradient) the specification defines, hence all agree; at model level Bool = support of
        Real, max-product <= sum-product (so Viterbi <= Log), Log = ln Real by the projection.
"""
from __future__ import annotations
import json, os, subprocess, sys, warnings
from ..common import *
from .. import ag as AG

PID = 'C11'
LEVELS = [[], ['-O'], ['-OO']]


loggrads = {}


def run_workers(work, jobs, o):
    """each interpreter level gets all jobs, split over a few processes"""
    nsplit = max(1, min(5, len(jobs) // 6))
    procs = []
    for li, lv in enumerate(LEVELS):
        for s in range(nsplit):
            part = jobs[s::nsplit]
            jf, of = work / f'jobs_{li}_{s}.json', work / f'out_{li}_{s}.json'
            jf.write_text(json.dumps(part))
            env = dict(os.environ, PYTHONPATH=f'{REPO}:{VERIF}', FGGS_REPO=str(REPO), FGGS_VERIF='1', OMP_NUM_THREADS='1')
            p = subprocess.Popen(['/venv/bin/python', *lv, str(VERIF / 'harness' / 'c11_worker.py'), str(jf), str(of), str(VERIF)],
                                 env=env, stdout=subprocess.PIPE, stderr=subprocess.PIPE, text=True)
            procs.append((p, part, of, s, li))
    results = {}
    loggrads.clear()
    for p, part, of, s, li in procs:
        out, err = p.communicate(timeout=3000)
        if p.returncode != 0 or not of.exists():
            raise MachineryFailure(f'C11 worker (level {LEVELS[li]}) failed: {err[-500:]}')
        for j, rec in zip(part, json.loads(of.read_text())):
            results.setdefault(j['idx'], []).extend(rec['runs'])
            if 'loggrad' in rec:
                loggrads.setdefault(j['idx'], {'cotlog': rec['cotlog'], 'runs': []})['runs'].extend(rec['loggrad'])
    return results


def cli_runs(work, a, idx):
    """bin/sum_product.py -OO on the JSON file of the grammar: value and all gradients"""
    import torch, fggs
    from fggs import formats
    runs = []
    g, _ = AG.build_fgg(a, 'real', torch.float64, finite_domains=False)
    path = work / f'g{idx}.json'
    path.write_text(json.dumps(formats.fgg_to_json(g)))
    for jp in (False, True):
        for method in ('newton', 'fixed-point'):
            r = {'sr': 'nat', 'out': 'ok', 'res': {}, 'hasgrad': True, 'grads': {}, 'tag': ['real', method, 'j' if jp else 'nj', 'float64', 'O2', 'bin/sum_product.py']}
            cmd = ['/venv/bin/python', '-OO', str(REPO / 'bin' / 'sum_product.py'), str(path), '-m', method, '-d', '-G'] + (['-j'] if jp else [])
            env = dict(os.environ, PYTHONPATH=str(REPO), OMP_NUM_THREADS='1')
            p = subprocess.run(cmd, capture_output=True, text=True, env=env, timeout=300)
            if p.returncode != 0:
                r['out'] = 'raise:exit' + str(p.returncode)
                r['err'] = p.stderr[-200:]
            else:
                try:
                    lines = [l for l in p.stdout.splitlines() if l.strip()]
                    z = torch.tensor(json.loads(lines[0]), dtype=torch.float64)
                    r['res'][a['start']] = AG.project_tensor(z, 'real', torch.float64)
                    for l in lines[1:]:
                        if l.startswith('grad['):
                            name = l[5:l.index(']')]
                            gr = torch.tensor(json.loads(l[l.index(':') + 1:].replace('NaN', 'null') if 'NaN' not in l else '[]'), dtype=torch.float64)
                            r['grads'][name] = [[snap_int(float(x))] * 2 for x in gr.reshape(-1).tolist()]
                    for t in AG.terms_of(a):
                        r['grads'].setdefault(t, [[ABSENT, ABSENT]] * len(a['w'][t]))
                        if len(r['grads'][t]) != len(a['w'][t]):
                            r['grads'][t] = [[NONINT, NONINT]] * len(a['w'][t])
                except Exception as e:  # noqa
                    r['out'] = 'raise:unparsable'
                    r['err'] = str(e)[:100] + p.stdout[:200]
            runs.append(r)
    return runs


def run(tier, seed):
    o = Outcome(PID, tier, seed)
    o.assumptions = ['answers are compared with the one definitional value on exact carriers, so agreement between configurations follows; "within floating-point tolerance" is the projection tolerance of each carrier',
                     'interpreter levels: python, python -O, python -OO (separate worker processes); bin/sum_product.py is run as shipped (-OO)']
    rng = rng_for(seed, 'c11')
    nn, nf, ncli, nclean = (30, 15, 4, 16) if tier == 'quick' else (400, 150, 40, 200)
    jobs = []
    for i in range(nn):
        a = AG.gen_ag(rng, n_nts=(1, 3), max_rules=2, max_nodes=3, max_edges=3, recursion='none', weights='small', p_zero=0.12,
                      dom_sizes=(1, 2), start_arity=(0, 0, 1), value_cap=3000, p_norules=0.08)
        jobs.append({'ag': a, 'idx': i, 'tier': tier, 'mode': 'nat'})
    # grammars outside the recorded j_precompute findings, biased towards unit rules whose single edge has
    # internal nodes / a permuted attachment: here EVERY disagreement of a j_precompute run is a violation
    for i in range(nn, nn + nclean):
        a = AG.gen_ag_j_clean(rng)
        jobs.append({'ag': a, 'idx': i, 'tier': tier, 'mode': 'nat'})
    nn += nclean
    for i in range(nf):
        # every third grid grammar has a binary nonterminal whose base rule is a diagonal PatternedTensor: the
        # fixed-point iterates then change their sparsity pattern while newton / linear do not care
        # ... and every fifth has an unproductive nonterminal in the recursive component (a rule that never gets a value,
        # listed before the productive ones) and a scalar start symbol: its gradients are taken per interpreter level too
        dead = i % 5 == 2
        a = AG.gen_fx_recursive(rng, linear=(i % 2 == 0 and not dead), max_q=0.85, patterned=('tri' if i % 3 == 1 and not dead else False),
                                dead=dead, scalar_start=dead, mutual=(i % 5 == 4))
        jobs.append({'ag': a, 'idx': nn + i, 'tier': tier, 'mode': 'fx', 'lg': dead})
    with Scratch() as work:
        res = run_workers(work, jobs, o)
        for i in range(min(ncli, nn)):
            res[i].extend(cli_runs(work, jobs[i]['ag'], i))
        nat_cases = [{'ag': {k: j['ag'][k] for k in ('nls', 'els', 'start', 'rules', 'w')}, 'runs': res[j['idx']]} for j in jobs if j['mode'] == 'nat']
        fx_cases = [{'ag': {k: j['ag'][k] for k in ('nls', 'els', 'start', 'rules', 'wfx', 'cert')}, 'runs': res[j['idx']], 'q_hint': j['ag']['q_hint']} for j in jobs if j['mode'] == 'fx']
        v1, st, tr, _ = judge_batch(work / 'j1', 'Trace_Config', nat_cases, per_shard_min=3, heap='3g')
        o.states += st
        o.transitions += tr
        if any(v.get('v') == 'SPEC-INCONSISTENT' for v in v1.values()):
            raise MachineryFailure('cross-semiring theorem failed at model level')
        o.absorb_verdicts(nat_cases, v1, load_findings(), part='nonrecursive')
        lg_cases = [{'ag': {k: j['ag'][k] for k in ('nls', 'els', 'start', 'rules', 'w')}, 'mode': 'nat', 'cot': loggrads[j['idx']]['cotlog'],
                     'cotlog': loggrads[j['idx']]['cotlog'], 'pad': 0, 'runs': loggrads[j['idx']]['runs']} for j in jobs if j['mode'] == 'nat' and j['idx'] in loggrads]
        v3, st, tr, _ = judge_batch(work / 'j3', 'Trace_Grad', lg_cases, per_shard_min=3, heap='3g')
        o.states += st
        o.transitions += tr
        o.absorb_verdicts(lg_cases, v3, load_findings(), part='log_gradients')
        lgf_cases = [{'ag': {k: j['ag'][k] for k in ('nls', 'els', 'start', 'rules', 'wfx', 'cert')}, 'mode': 'fx', 'cot': [1], 'cotlog': [1], 'pad': 8,
                      'runs': loggrads[j['idx']]['runs']} for j in jobs if j['mode'] == 'fx' and j['idx'] in loggrads]
        v4, st, tr, _ = judge_batch(work / 'j4', 'Trace_Grad', lgf_cases, per_shard_min=2, heap='3g')
        o.states += st
        o.transitions += tr
        o.absorb_verdicts(lgf_cases, v4, load_findings(), part='gradients_recursive')
        o.extra['recursive_gradient_grammars'] = len(lgf_cases)
        v2, st, tr, _ = judge_batch(work / 'j2', 'Trace_Recursive', fx_cases, per_shard_min=2, heap='3g')
        o.states += st
        o.transitions += tr
        o.absorb_verdicts(fx_cases, v2, load_findings(), part='recursive')
        cfgs = {}
        for c in nat_cases + fx_cases:
            for r in c['runs']:
                k = '/'.join(r['tag'][1:])
                cfgs[k] = cfgs.get(k, 0) + 1
        o.extra['configurations_exercised'] = len(cfgs)
        o.extra['runs_judged'] = sum(cfgs.values())
        o.extra['runs_by_interpreter_level'] = {lv: sum(v for k, v in cfgs.items() if lv in k.split('/')) for lv in ('O0', 'O1', 'O2')}
        o.extra['bin_sum_product_runs'] = sum(v for k, v in cfgs.items() if 'bin/sum_product.py' in k)
        o.sample({'ag': nat_cases[0]['ag'], 'run': nat_cases[0]['runs'][0]})
    return o


def replay(path, seed):
    return run('quick', seed)
