"""C14 -- JSON serialisation round-trips grammars and weights.

gen   : seeded abstract grammars with mixed explicit/implicit node and edge ids, finite and range
        domains, dense and patterned (diagonal / expanded) weights with zero and infinite entries,
        start symbols of arity > 0, unused terminals and nonterminals; every out-of-range
        position for attachment / external numbers.
drive : fgg_to_json, json.dumps/loads, json_to_fgg, second fgg_to_json; json_to_fgg on the
        malformed objects.
judge : Trace_Json (TLC): the JSON object is the abstract grammar up to renaming of implicit ids
        (isomorphism search per rule), round trip, verbatim second trip, ValueError exactly on
        out-of-range numbers.
"""
from __future__ import annotations
import copy, json, math, warnings
from ..common import *
from .. import ag as AG

PID = 'C14'


def decorate(rng, a, mode):
    """add id flags and weight patterns to an abstract grammar"""
    a = copy.deepcopy(a)
    for ri, r in enumerate(a['rules']):
        if mode == 'explicit':
            r['nid'] = [f'n{ri}_{j}' for j in range(len(r['nodes']))]
            r['eid'] = [f'e{ri}_{k}' for k in range(len(r['edges']))]
        elif mode == 'implicit':
            r['nid'] = ['' for _ in r['nodes']]
            r['eid'] = ['' for _ in r['edges']]
        else:
            r['nid'] = [f'n{ri}_{j}' if rng.random() < 0.5 else '' for j in range(len(r['nodes']))]
            r['eid'] = [f'e{ri}_{k}' if rng.random() < 0.5 else '' for k in range(len(r['edges']))]
    a['finite'] = rng.random() < 0.5
    a['pat'] = {}
    for t in AG.terms_of(a):
        sh = AG.shape_of(a, t)
        if len(sh) == 2 and sh[0] == sh[1] and sh[0] >= 2 and rng.random() < 0.5:
            n = sh[0]
            a['w'][t] = [a['w'][t][i * n + j] if i == j else 0 for i in range(n) for j in range(n)]
            a['pat'][t] = 'diag'
        elif len(sh) == 3 and sh[1] == sh[2] and sh[1] >= 2 and a['els'][t]['type'][1] == a['els'][t]['type'][2] and rng.random() < 0.8:
            # (kA, kB, kB): sparsity in the later axes, NON-ZERO default (also infinite)
            d = rng.choice([5, 7, INF])
            n0, n = sh[0], sh[1]
            a['w'][t] = [a['w'][t][(i * n + j) * n + j] if j == k else d for i in range(n0) for j in range(n) for k in range(n)]
            a['pat'][t] = ('diag3', d)
        elif len(sh) == 2 and sh[0] >= 2 and rng.random() < 0.4:
            a['w'][t] = [a['w'][t][j] for i in range(sh[0]) for j in range(sh[1])]
            a['pat'][t] = 'expand'
        elif len(sh) >= 2 and all(x >= 2 for x in sh) and rng.random() < 0.6:
            # the same dense weights held as a PERMUTED VIEW (what .t() / .permute() / a JSON spec with "vaxes": [1, 0] give):
            # the virtual axes are the physical ones in another order
            perm = list(range(len(sh)))
            while perm == sorted(perm):
                rng.shuffle(perm)
            a['pat'][t] = ('perm', perm)
    return a


def patterned_hooks(a):
    import torch
    from fggs.indices import PatternedTensor, PhysicalAxis
    hooks = {}
    for t, p in a['pat'].items():
        if p == 'expand':
            continue        # a stride-0 view cannot be written in place: left alone
        if isinstance(p, (tuple, list)) and p[0] == 'diag3':
            def h(ten, d=p[1]):
                kA, kB = PhysicalAxis(ten.shape[0]), PhysicalAxis(ten.shape[1])
                phys = torch.stack([ten[:, j, j] for j in range(ten.shape[1])], dim=1).clone()
                return PatternedTensor(phys, (kA, kB), (kA, kB, kB), math.inf if d == INF else float(d))
            hooks[t] = h
        elif p == 'diag':
            def h(ten):
                k = PhysicalAxis(ten.shape[0])
                return PatternedTensor(ten.diagonal().clone(), (k,), (k, k), 0.)
            hooks[t] = h
        elif isinstance(p, (tuple, list)) and p[0] == 'perm':
            def h(ten, perm=list(p[1])):
                inv = [perm.index(i) for i in range(len(perm))]
                return PatternedTensor(ten.permute(perm).contiguous()).permute(inv)
            hooks[t] = h
        elif p == 'expand':
            def h(ten):
                return PatternedTensor(ten[0].clone()).unsqueeze(0).expand(*ten.shape)
            hooks[t] = h
    return hooks


def flat_weights(w):
    import torch
    t = torch.tensor(w, dtype=torch.float64)
    return {'shape': list(t.shape), 'flat': [snap_int(float(x)) for x in t.reshape(-1).tolist()]}


def tlc_json(j):
    j = copy.deepcopy(j)
    for n, f in j['interpretation']['factors'].items():
        if f.get('function') == 'finite':
            f['weights'] = flat_weights(f['weights'])
    return j


def doubled(a):
    """the abstract grammar after every factor's STORAGE was doubled in place (backed cells only)"""
    a2 = copy.deepcopy(a)
    for t in AG.terms_of(a):
        p = a['pat'].get(t)
        sh = AG.shape_of(a, t)
        dbl = lambda x: x if x == INF else 2 * x
        if p == 'expand':
            continue        # a stride-0 view cannot be written in place: left alone
        if isinstance(p, (tuple, list)) and p[0] == 'diag3':
            n0, n = sh[0], sh[1]
            a2['w'][t] = [dbl(a['w'][t][(i * n + j) * n + k]) if j == k else a['w'][t][(i * n + j) * n + k]
                          for i in range(n0) for j in range(n) for k in range(n)]
        else:
            a2['w'][t] = [dbl(x) for x in a['w'][t]]
    return a2


def drive_rt(a, history=False):
    import fggs, torch
    from fggs import formats
    c = {'kind': 'rt', 'g': {k: a[k] for k in ('nls', 'els', 'start', 'rules', 'w', 'finite')}, 'out1': 'ok', 'dumps': False,
         'j1': {}, 'out2': 'ok', 'j2': {}, 'allexplicit': all(x != '' for r in a['rules'] for x in r['nid'] + r['eid']),
         'tag': ['rt', 'explicit' if all(x != '' for r in a['rules'] for x in r['nid'] + r['eid']) else 'mixed']}
    try:
        g, info = AG.build_fgg(a, 'real', torch.float64, use_rule_ids=True, finite_domains=a['finite'], patterned=patterned_hooks(a))
        if history:
            # a HISTORY: serialise once, update every factor's weights in place (what an optimiser step does),
            # serialise again -- the second object must describe the grammar as it is now
            formats.fgg_to_json(g)
            for t in AG.terms_of(a):
                if a['pat'].get(t) != 'expand':
                    g.factors[t].weights.physical.mul_(2.)
            a = doubled(a)
            c['g'] = {k: a[k] for k in ('nls', 'els', 'start', 'rules', 'w', 'finite')}
            c['tag'] = c['tag'] + ['after_inplace_update']
        j1 = formats.fgg_to_json(g)
    except Exception as e:  # noqa
        c['out1'] = 'raise:' + type(e).__name__ + ':' + str(e)[:100]
        return c
    try:
        text = json.dumps(j1)
        c['dumps'] = True
        c['j1'] = tlc_json(j1)
    except Exception as e:  # noqa
        return c
    try:
        g2 = formats.json_to_fgg(json.loads(text))
        j2 = formats.fgg_to_json(g2)
        c['j2'] = tlc_json(json.loads(json.dumps(j2)))
        c['j1'] = tlc_json(json.loads(text))
    except Exception as e:  # noqa
        c['out2'] = 'raise:' + type(e).__name__ + ':' + str(e)[:100]
    return c


def drive_bad(a, rng):
    import fggs, torch
    from fggs import formats
    g, info = AG.build_fgg(a, 'real', torch.float64, use_rule_ids=True)
    j = json.loads(json.dumps(formats.fgg_to_json(g)))
    out = []
    for ri, r in enumerate(j['grammar']['rules']):
        n = len(r['rhs']['nodes'])
        spots = [('att', k, m) for k, e in enumerate(r['rhs']['edges']) for m in range(len(e['attachments']))] + \
                [('ext', k, 0) for k in range(len(r['rhs']['externals']))]
        if not spots:
            continue
        what, k, m = rng.choice(spots)
        for idx in sorted({-n - 1, -n, -1, 0, n - 1, n, n + 1}):
            jj = copy.deepcopy(j)
            rr = jj['grammar']['rules'][ri]['rhs']
            if what == 'att':
                rr['edges'][k]['attachments'][m] = idx
            else:
                rr['externals'][k] = idx
            for fn in ('json_to_fgg', 'json_to_hrg'):
                c = {'kind': 'bad', 'idx': idx, 'n': n, 'what': what, 'out': 'ok', 'tag': ['bad', what, fn]}
                try:
                    if fn == 'json_to_fgg':
                        formats.json_to_fgg(jj)
                    else:
                        formats.json_to_hrg(jj['grammar'])
                except Exception as e:  # noqa
                    c['out'] = 'raise:' + type(e).__name__
                # a valid number may still be rejected for a different reason (label/type mismatch): only
                # out-of-range numbers are judged strictly; in-range ones must not raise ValueError spuriously
                if 0 <= idx < n and c['out'] != 'ok':
                    # replacing a node by another may legitimately break typing: skip those
                    continue
                out.append(c)
    return out


def drive_weight_specs(seed, n):
    """json_to_weights on patterned specifications {physical, expand, vaxes, default}: the result
    must denote the tensor the specification describes (judged by Trace_Tensor / Axes.tla)."""
    import torch
    from fggs import formats
    from .. import pt as PT
    from . import c06
    rng = rng_for(seed, 'c14w')
    cases = []
    for i in range(n):
        nd = rng.choice([1, 2, 2, 3])
        types = [PT.gen_type(rng, {1: 6, 2: 4, 3: 3}[nd]) for _ in range(nd)]
        st = PT.gen_pattern(rng, types, default=rng.choice([0.0, 0.0, 1.0, 5.0, math.inf, -math.inf]),
                            scheme=rng.choice(['distinct', 'small', 'special']))
        ps = st['ps']
        nexp = 1 if (ps and rng.random() < 0.35 and ps[0]['n'] > 0) else 0
        shape = [p['n'] for p in ps]
        if nexp:      # make the values constant along the first physical axis: it becomes an "expand" axis
            inner = 1
            for x in shape[1:]:
                inner *= x
            st['ph'] = [st['ph'][k % inner] for k in range(len(st['ph']))] if inner else st['ph']
        t = torch.tensor(st['ph'], dtype=torch.float64).reshape(shape)
        phys = (t[0] if nexp else t).tolist()
        pos = {p['id']: k for k, p in enumerate(ps)}

        def jax(e):
            if e['k'] == 'P':
                return pos[e['id']]
            if e['k'] == 'X':
                return [jax(f) for f in e['fs']]
            return {'before': e['b'], 'term': jax(e['t']), 'after': e['a']}
        spec = {'physical': phys, 'vaxes': [jax(e) for e in st['vs']], 'default': st['d']}
        if nexp:
            spec['expand'] = [shape[0]]
        double = i % 4 == 3
        if double:
            # the default dtype is float64 (as under bin/sum_product.py -d) and the values need more than 24 bits:
            # held exactly (to 1/1000) by a double, moved by several 1/1000 when squeezed through float32
            fine = [100000.004, 100000.012, 131072.003, 65536.001, 99999.996, 3.0, 0.0]
            k0 = rng.randrange(len(fine))
            st['ph'] = [fine[(k0 + q) % len(fine)] for q in range(len(st['ph']))]
            if nexp:
                inner = 1
                for x in shape[1:]:
                    inner *= x
                st['ph'] = [st['ph'][q % inner] for q in range(len(st['ph']))] if inner else st['ph']
            t = torch.tensor(st['ph'], dtype=torch.float64).reshape(shape)
            spec['physical'] = (t[0] if nexp else t).tolist()
            if math.isfinite(st['d']):
                st['d'] = spec['default'] = rng.choice([0.0, 100000.004])
        c = {'kind': 'dense_exact' if double else 'dense', 'st': PT.encode_struct(st), 'out': 'ok', 'rb': PT.encode_struct(st), 'obs': {'shape': [], 'flat': []},
             'tag': ['json_to_weights', 'expand' if nexp else 'plain'] + (['default_dtype_float64'] if double else [])}
        old_dt = torch.get_default_dtype()
        try:
            if double:
                torch.set_default_dtype(torch.float64)
            text = json.dumps(spec)
            w = formats.json_to_weights(json.loads(text))
            c['rb'] = PT.readback(w)
            c['obs'] = c06.obs_of(w)
        except Exception as e:  # noqa
            c['out'] = 'raise:' + type(e).__name__
            c['err'] = str(e)[:150]
        finally:
            torch.set_default_dtype(old_dt)
        cases.append(c)
        if double and i % 8 == 3:
            # the same tensor given as a plain nested list under the same default dtype
            dn = PT.build(st, torch.float64).to_dense()
            c2 = {'kind': 'dense_exact', 'st': PT.encode_struct(st), 'out': 'ok', 'rb': PT.encode_struct(st), 'obs': {'shape': [], 'flat': []},
                  'tag': ['json_to_weights', 'nested_list', 'default_dtype_float64']}
            try:
                torch.set_default_dtype(torch.float64)
                w = formats.json_to_weights(json.loads(json.dumps(dn.tolist())))
                c2['rb'] = PT.readback(w)
                c2['obs'] = c06.obs_of(w)
            except Exception as e:  # noqa
                c2['out'] = 'raise:' + type(e).__name__
            finally:
                torch.set_default_dtype(old_dt)
            if dn.numel() > 0:
                cases.append(c2)
    return cases


def _drive(args):
    a, i, seed = args
    rng = rng_for(seed, f'c14-{i}')
    cases = [drive_rt(a)]
    if i % 4 == 1:
        cases.append(drive_rt(a, history=True))
    if i % 3 == 0:
        try:
            cases += drive_bad(a, rng)
        except Exception as e:  # noqa
            raise MachineryFailure(f'drive_bad: {e!r}')
    return cases


def run(tier, seed):
    o = Outcome(PID, tier, seed)
    o.assumptions = ['weights are integers/INF so that float text round-trips exactly; projected to [shape, flat] for TLC',
                     'json_to_weights of patterned specifications is judged in C06/Axes (dense denotation)']
    rng = rng_for(seed, 'c14')
    n = 150 if tier == 'quick' else 2000
    ags = []
    for i in range(n):
        a = AG.gen_ag(rng, n_nts=(1, 3), max_rules=2, max_nodes=4, max_edges=3, recursion='any' if i % 2 else 'none', n_nls=(1, 1) if i % 3 == 0 else (1, 2),
                      weights='primes', p_inf=0.05, value_cap=1 << 30, allow_unused_terms=(i % 4 == 0), p_norules=0.2)
        ags.append(decorate(rng, a, ['explicit', 'implicit', 'mixed'][i % 3]))
    with Scratch() as work:
        cases = [c for cs in pmap(_drive, [(a, i, seed) for i, a in enumerate(ags)]) for c in cs]
        verdicts, st, tr, _ = judge_batch(work / 'judge', 'Trace_Json', cases, per_shard_min=60)
        o.states += st
        o.transitions += tr
        o.absorb_verdicts(cases, verdicts, load_findings())
        wcases = drive_weight_specs(seed, 150 if tier == 'quick' else 3000)
        wv, st, tr, _ = judge_batch(work / 'wjudge', 'Trace_Tensor', wcases, per_shard_min=200)
        o.states += st
        o.transitions += tr
        o.absorb_verdicts(wcases, wv, load_findings(), part='json_to_weights')
        o.extra['weight_specifications'] = len(wcases)
        kinds = {}
        for c in cases:
            k = '/'.join(c['tag'][:2])
            kinds[k] = kinds.get(k, 0) + 1
        o.extra['cases_by_kind'] = kinds
        o.extra['grammars_with_patterned_weights'] = sum(1 for a in ags if a['pat'])
        o.sample(next(c for c in cases if c['kind'] == 'rt'))
    return o


def replay(path, seed):
    return run('quick', seed)
