"""Worker for C11: runs the configuration matrix in THIS interpreter (started by the driver as
`python`, `python -O` and `python -OO`), reading jobs from a JSON file and writing run records."""
import json, math, sys, warnings
import os
sys.path.insert(0, os.environ.get('FGGS_REPO', '/repo'))
sys.path.insert(0, sys.argv[3] if len(sys.argv) > 3 else '/verif')
import torch
import fggs
from harness import ag as AG
from harness.common import snap_int, ABSENT, INF, NINF, NAN, NONINT

LEVEL = 'O%d' % sys.flags.optimize
METHODS = ('fixed-point', 'newton', 'linear')


def grads_nat(g, a):
    out = {}
    for t in AG.terms_of(a):
        gr = g.factors[t].weights.grad
        n = len(a['w'][t])
        out[t] = [[ABSENT, ABSENT]] * n if gr is None else [[snap_int(float(x))] * 2 for x in gr.to_dense().reshape(-1).tolist()]
    return out


def run_nat(a, idx, tier):
    runs = []
    for kind, carrier in (('real', 'nat'), ('log', 'nat'), ('bool', 'bool'), ('mt', 'mt')):
        for method in METHODS:
            for jp in ((False, True) if method == 'newton' else (False,)):
                for dtype in ((torch.float64, torch.float32) if (tier == 'thorough' and kind != 'bool') else ((torch.float64 if idx % 2 == 0 else torch.float32),)):
                    if kind == 'bool':
                        dtype = torch.bool
                    r = {'sr': carrier, 'out': 'ok', 'res': {}, 'hasgrad': False, 'grads': {},
                         'tag': [kind, method, 'j' if jp else 'nj', str(dtype).replace('torch.', ''), LEVEL]}
                    try:
                        bk = 'log' if kind == 'mt' else kind
                        g, _ = AG.build_fgg(a, bk, dtype)
                        sr = fggs.ViterbiSemiring(dtype=dtype) if kind == 'mt' else AG.semiring_for(kind, dtype)
                        with warnings.catch_warnings():
                            warnings.simplefilter('ignore')
                            with torch.no_grad():
                                sp = fggs.sum_products(g, method=method, semiring=sr, j_precompute=jp)
                        for el, t in sp.items():
                            if el.is_nonterminal:
                                r['res'][el.name] = AG.project_tensor(t.to_dense(), 'log' if kind == 'mt' else kind, dtype)
                    except Exception as e:  # noqa
                        r['out'] = 'raise:' + type(e).__name__
                        r['err'] = str(e)[:160]
                    runs.append(r)
    # gradients (real semiring, cotangent all ones)
    for method in METHODS:
        for jp in (False, True):
            r = {'sr': 'nat', 'out': 'ok', 'res': {}, 'hasgrad': True, 'grads': {}, 'tag': ['real', method, 'j' if jp else 'nj', 'float64', LEVEL, 'grad']}
            try:
                g, _ = AG.build_fgg(a, 'real', torch.float64)
                for f in g.factors.values():
                    f.weights.requires_grad_()
                with warnings.catch_warnings():
                    warnings.simplefilter('ignore')
                    sp = fggs.sum_products(g, method=method, semiring=AG.semiring_for('real', torch.float64), j_precompute=jp)
                    z = sp[g.start].to_dense()
                    if z.requires_grad:
                        z.sum().backward()
                r['res'][g.start.name] = AG.project_tensor(z.detach(), 'real', torch.float64)
                r['grads'] = grads_nat(g, a)
            except Exception as e:  # noqa
                r['out'] = 'raise:' + type(e).__name__
                r['err'] = str(e)[:160]
            runs.append(r)
    return runs


def run_loggrad(a, idx):
    """Log-semiring gradients (one-hot cotangent) in this interpreter, judged by Trace_Grad"""
    runs = []
    n = AG.numel(AG.shape_of(a, a['start']))
    cotlog = [0] * n
    cotlog[idx % max(1, n)] = 1
    enc = lambda v: NAN if math.isnan(v) else (INF if v == math.inf else (NINF if v == -math.inf else (int(round(v * 10000)) if abs(v) < 90 else NONINT)))
    for method in METHODS[:2]:
        r = {'kind': 'log', 'out': 'ok', 'grads': {}, 'tag': ['log', method, 'float64', LEVEL, 'grad']}
        try:
            g, _ = AG.build_fgg(a, 'log', torch.float64)
            for f in g.factors.values():
                f.weights.requires_grad_()
            with warnings.catch_warnings():
                warnings.simplefilter('ignore')
                z = fggs.sum_product(g, method=method, semiring=AG.semiring_for('log', torch.float64)).to_dense()
                c = torch.tensor(cotlog, dtype=torch.float64).reshape(z.shape)
                loss = (z[c != 0] * c[c != 0]).sum()
                if loss.requires_grad:
                    loss.backward()
            for t in AG.terms_of(a):
                gr = g.factors[t].weights.grad
                k = len(a['w'][t])
                r['grads'][t] = [[ABSENT, ABSENT]] * k if gr is None else [[enc(float(x))] * 2 for x in gr.to_dense().reshape(-1).tolist()]
        except Exception as e:  # noqa
            r['out'] = 'raise:' + type(e).__name__
            r['err'] = str(e)[:160]
        runs.append(r)
    return cotlog, runs


def interval_fx(v):
    if math.isnan(v):
        return [NAN, NAN]
    if math.isinf(v):
        return [INF, INF] if v > 0 else [NINF, NINF]
    s = v * AG.FXS
    return [NONINT, NONINT] if abs(s) > 8e5 else [math.floor(s), math.ceil(s)]


def run_fx(a, idx, tier):
    runs = []
    maxc = max(max(v) for v in a['cert'].values()) / AG.FXS
    for kind in ('real', 'log'):
        for method in METHODS:
            for jp in ((False, True) if method == 'newton' else (False,)):
                dtype = torch.float64
                tol = 1e-6
                scale = 1.0 if kind == 'real' else max(1.0, 1.01 * maxc)
                r = {'sr': 'fx', 'method': method, 'kmax': 1000, 'tolu': max(1, math.ceil(tol * scale * AG.FXS)), 'out': 'ok', 'warned': False, 'res': {},
                     'tag': [kind, method, 'j' if jp else 'nj', 'float64', LEVEL]}
                try:
                    g, _ = AG.build_fgg_fx(a, kind, dtype)
                    with warnings.catch_warnings(record=True) as wl:
                        warnings.simplefilter('always')
                        with torch.no_grad():
                            sp = fggs.sum_products(g, method=method, semiring=AG.semiring_for(kind, dtype), tol=tol, kmax=1000, j_precompute=jp)
                    r['warned'] = any('index type mismatch' not in str(w.message) for w in wl)    # ANY warning counts as "says otherwise" (wording is not specified)
                    for el, t in sp.items():
                        if el.is_nonterminal:
                            vals = t.to_dense().reshape(-1).tolist()
                            r['res'][el.name] = [interval_fx(float(x) if kind == 'real' else (math.exp(float(x)) if float(x) < 30 else math.inf)) for x in vals]
                except Exception as e:  # noqa
                    r['out'] = 'raise:' + type(e).__name__
                    r['err'] = str(e)[:160]
                runs.append(r)
    # the same answer at another magnitude: a globally linear grammar whose constant rules carry a factor exp(-280) has all
    # its Log-semiring values shifted by -280, whatever the method
    am = AG.with_constant_marker(a)
    if am is not None:
        SH = 280.0
        for method in METHODS:
            tol = 1e-3
            r = {'sr': 'fx', 'method': method, 'kmax': 1000, 'tolu': max(1, math.ceil(tol * max(1.0, 1.01 * maxc) * AG.FXS)), 'out': 'ok', 'warned': False, 'res': {},
                 'tag': ['log', method, 'nj', 'float64', LEVEL, 'shifted_by_-280']}
            try:
                g = AG.build_fgg_fx_shifted(am, torch.float64, SH)
                with warnings.catch_warnings(record=True) as wl:
                    warnings.simplefilter('always')
                    with torch.no_grad():
                        sp = fggs.sum_products(g, method=method, semiring=AG.semiring_for('log', torch.float64), tol=tol, kmax=1000)
                r['warned'] = any('index type mismatch' not in str(w.message) for w in wl)
                for el, t in sp.items():
                    if el.is_nonterminal:
                        r['res'][el.name] = [interval_fx(math.exp(float(x) + SH) if float(x) + SH < 30 else math.inf) for x in t.to_dense().reshape(-1).tolist()]
            except Exception as e:  # noqa
                r['out'] = 'raise:' + type(e).__name__
                r['err'] = str(e)[:160]
            runs.append(r)
    return runs


if __name__ == '__main__':
    jobs = json.load(open(sys.argv[1]))
    out = []
    for j in jobs:
        if j['mode'] == 'nat':
            runs = run_nat(j['ag'], j['idx'], j['tier'])
            cotlog, lg = run_loggrad(j['ag'], j['idx'])
            out.append({'runs': runs, 'cotlog': cotlog, 'loggrad': lg})
        else:
            rec = {'runs': run_fx(j['ag'], j['idx'], j['tier'])}
            if j.get('lg'):
                # Log- and Real-semiring gradients of a recursive grid grammar with scalar start symbol, in this interpreter
                from harness.props import c03
                rec['cotlog'] = [1]
                rec['loggrad'] = []
                for m in METHODS[:2]:
                    for kind in ('log', 'real'):
                        r = c03.one(j['ag'], kind, m, torch.float64, [1], fx=True, tol=1e-8)
                        r['tag'] = r['tag'] + [LEVEL, 'grad']
                        rec['loggrad'].append(r)
            out.append(rec)
    json.dump(out, open(sys.argv[2], 'w'))
