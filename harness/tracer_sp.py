"""pytest plugin: the repository's OWN test-suite as a trace source for the solver-driver machine (C02, spec/Solver.tla)
and for the representation invariant of patterned tensors (C06).  Loaded with `-p harness.tracer_sp` under FGGS_VERIF=1.

* every OUTERMOST call of fggs.sum_products (also reached through sum_product, viterbi does not use it) is recorded: the
  nonterminal skeleton of the grammar (labels, left-hand side and edge labels of every rule), the event log the guarded
  hook wrote during the call, whether the solver issued a warning, and the outcome.  The events are validated against the
  state machine of the driver by spec/Trace_Solver.tla, exactly like the logs of the generated grammars;
* at the end of the session the structures of all PatternedTensors the library constructed while the tests ran (hook log
  of fggs.indices) are written out for the representation-invariant clause.

The tests use arbitrary floating-point weights, so their VALUES cannot be judged on exact carriers; what the driver did,
in which order, and whether it told the caller about an exhausted budget, can.  Nothing in the repository is changed: the
wrapper is installed at import time in the pytest process and passes every call, result, warning and exception through."""
import functools, json, os

_calls = []
_dense = []
_dense_seen = set()
_depth = [0]


def _skeleton(g):
    els = {l.name: {'t': bool(l.is_terminal), 'type': [x.name for x in l.type]} for l in g.edge_labels()}
    rules = [{'lhs': r.lhs.name, 'edges': [{'lab': e.label.name} for e in r.rhs.edges()]} for r in g.all_rules()]
    for r in g.all_rules():
        els.setdefault(r.lhs.name, {'t': False, 'type': [x.name for x in r.lhs.type]})
        for e in r.rhs.edges():
            els.setdefault(e.label.name, {'t': bool(e.label.is_terminal), 'type': [x.name for x in e.label.type]})
    return {'els': els, 'rules': rules}


def _install():
    import sys, fggs
    SP = sys.modules['fggs.sum_product']      # (fggs.sum_product is the function: the module is shadowed by its own export)
    orig = SP.sum_products
    warned = [False]

    class _W:
        """stands in for the `warnings` module inside fggs.sum_product: notes that the solver warned, then warns"""
        def __init__(self, real):
            self.__dict__['_real'] = real

        def __getattr__(self, k):
            return getattr(self._real, k)

        def __setattr__(self, k, v):
            setattr(self._real, k, v)

        def warn(self, *a, **kw):
            warned[0] = True
            kw['stacklevel'] = kw.get('stacklevel', 1) + 1
            return self._real.warn(*a, **kw)
    SP.warnings = _W(SP.warnings)

    @functools.wraps(orig)
    def wrapper(fgg, *a, **kw):
        if _depth[0] > 0 or len(_calls) > 4000:
            return orig(fgg, *a, **kw)
        _depth[0] += 1
        log = getattr(SP, '_verif_trace', None)
        try:
            if log is not None:
                del log[:]
            warned[0] = False
            out, exc, res = 'ok', None, None
            try:
                res = orig(fgg, *a, **kw)
            except Exception as e:  # noqa
                out, exc = 'raise', e
            try:
                _calls.append({'ag': _skeleton(fgg), 'trace': [list(list(x) if isinstance(x, tuple) else x for x in ev) for ev in (log or [])],
                               'warned': bool(warned[0]), 'out': out,
                               'tag': ['repo_test', os.environ.get('PYTEST_CURRENT_TEST', '').split(' ')[0], str(kw.get('method', 'fixed-point'))]})
            except Exception:
                pass            # recording must never disturb the test
            if exc is not None:
                raise exc
            return res
        finally:
            _depth[0] -= 1
    SP.sum_products = wrapper
    if getattr(fggs, 'sum_products', None) is orig:
        fggs.sum_products = wrapper

    # every PatternedTensor the tests densify: its structure (read back) and the dense tensor to_dense() returned, for the
    # clause "to_dense() is the denotation of the structure" on the patterns and values the tests themselves use
    from fggs import indices as IX
    from harness import pt as PT
    orig_td = IX.PatternedTensor.to_dense
    busy = [False]

    @functools.wraps(orig_td)
    def to_dense(self):
        res = orig_td(self)
        if busy[0] or len(_dense) >= 600:
            return res
        busy[0] = True
        try:
            if 0 < res.numel() <= 256 and self.physical.numel() <= 256 and not res.is_complex():
                rb = PT.readback(self)
                key = json.dumps([rb['ps'], rb['vs'], rb['d']])
                if key not in _dense_seen:
                    _dense_seen.add(key)
                    _dense.append({'kind': 'dense', 'st': rb, 'rb': rb, 'out': 'ok', 'tag': ['dense', 'repo_tests'],
                                   'obs': {'shape': [int(x) for x in res.shape], 'flat': PT.enc_tensor(res.detach()), 'dt': str(res.dtype).replace('torch.', '')}})
        except Exception:
            pass
        finally:
            busy[0] = False
        return res
    IX.PatternedTensor.to_dense = to_dense


def pytest_configure(config):
    _install()


def pytest_sessionfinish(session, exitstatus):
    out = os.environ.get('VERIF_TRACE_OUT')
    if not out:
        return
    pats = []
    try:
        from harness.props import c06
        pats = [c for c in c06.drain_hook(set())]
    except Exception as e:  # noqa
        pats = [{'error': repr(e)[:200]}]
    with open(out, 'w') as f:
        json.dump({'solver': _calls, 'patterns': pats, 'dense': _dense}, f)
