"""Replay of Graphs-machine calls on real fggs objects and projection of real objects onto
the abstract heap of spec/Graphs.tla -- through public accessors only."""
from __future__ import annotations
import warnings
from typing import Any, Dict, List


class Session:
    """Real objects behind the handles of one behaviour, plus the table of implicit-id objects."""

    def __init__(self, machine='graph'):
        import fggs
        self.F = fggs
        self.machine = machine
        if machine == 'graph':
            self.objs: Dict[str, Any] = {'g1': fggs.Graph(), 'g2': None}
        elif machine == 'fgraph':
            self.objs = {'g1': fggs.FactorGraph(), 'g2': None}
        else:
            self.objs = {'g1': fggs.Graph(), 'h1': None, 'h2': None}
        self.sharers = set()
        self.impl_nodes: Dict[str, Any] = {}   # model name -> Node with implicit id
        self.impl_ids: Dict[int, str] = {}     # real implicit id -> model name

    # ---- model value -> real value
    def node(self, n):
        F = self.F
        if n['id'].startswith('i'):
            if n['id'] not in self.impl_nodes:
                v = F.Node(F.NodeLabel(n['l']))
                self.impl_nodes[n['id']] = v
                self.impl_ids[v.id] = n['id']
            return self.impl_nodes[n['id']]
        return F.Node(F.NodeLabel(n['l']), id=n['id'])

    def label(self, l):
        F = self.F
        return F.EdgeLabel(l['name'], [F.NodeLabel(x) for x in l['type']],
                           is_terminal=bool(l['t']), is_nonterminal=not l['t'])

    def edge(self, e):
        return self.F.Edge(self.label(e['lab']), [self.node(n) for n in e['att']], id=e['id'])

    # ---- projection
    def pnode(self, v):
        i = v.id
        if not isinstance(i, str):
            i = self.impl_ids.get(i, f'?{i}')
        return {'id': i, 'l': v.label.name}

    def plabel(self, l):
        return {'name': l.name, 'type': [x.name for x in l.type], 't': bool(l.is_terminal)}

    def pedge(self, e):
        i = e.id
        if not isinstance(i, str):
            i = self.impl_ids.get(i, f'?{i}')
        return {'id': i, 'lab': self.plabel(e.label), 'att': [self.pnode(v) for v in e.nodes]}

    def pgraph(self, g):
        if g is None:
            return {'k': 'none'}
        p = {'k': 'fgraph' if isinstance(g, self.F.FactorGraph) else 'graph',
                'nodes': sorted((self.pnode(v) for v in g.nodes()), key=lambda d: (d['id'], d['l'])),
                'edges': sorted((self.pedge(e) for e in g.edges()), key=lambda d: str(d)),
                'ext': [self.pnode(v) for v in g.ext],
                'nls': sorted(l.name for l in g.node_labels()),
                'els': sorted((self.plabel(l) for l in g.edge_labels()), key=lambda d: str(d))}
        if p['k'] == 'fgraph':
            p['doms'] = [{'nl': n, 'dom': self.pdom(d)} for n, d in sorted(g.domains.items())]
            p['facs'] = []
            for n, f in sorted(g.factors.items()):
                el = self.plabel(g.get_edge_label(n)) if g.has_edge_label_name(n) else {'name': n, 'type': ['?'], 't': True}
                p['facs'].append({'el': el, 'fac': self.pfac(f)})
        return p

    NOLABEL = {'name': '', 'type': [], 't': False}

    def pdom(self, d):
        from fggs.domains import FiniteDomain, RangeDomain
        if isinstance(d, RangeDomain):
            return {'cls': 'range', 'size': d.size(), 'vals': list(range(d.size()))}
        return {'cls': 'finite', 'size': d.size(), 'vals': list(d.values)}

    def pfac(self, f):
        from .common import snap_int
        w = f.weights.to_dense()
        return {'doms': [self.pdom(d) for d in f.domains], 'shape': list(w.shape),
                'w': [snap_int(float(x)) for x in w.reshape(-1).tolist()]}

    def phrg(self, h):
        if h is None:
            return {'k': 'none'}
        isf = isinstance(h, self.F.FGG)
        p = {'k': 'fgg' if isf else 'hrg',
             'start': self.plabel(h.start) if h.start is not None else self.NOLABEL,
             'rules': [{'lhs': self.plabel(r.lhs), 'rhs': self.pgraph(r.rhs)} for r in h.all_rules()],
             'nls': sorted(l.name for l in h.node_labels()),
             'els': sorted((self.plabel(l) for l in h.edge_labels()), key=lambda d: str(d)),
             'doms': [], 'facs': []}
        if isf:
            p['doms'] = [{'nl': n, 'dom': self.pdom(d)} for n, d in sorted(h.domains.items())]
            for n, f in sorted(h.factors.items()):
                el = self.plabel(h.get_edge_label(n)) if h.has_edge_label_name(n) else {'name': n, 'type': ['?'], 't': True}
                p['facs'].append({'el': el, 'fac': self.pfac(f)})
        return p

    def pobj(self, o):
        if o is None:
            return {'k': 'none'}
        if isinstance(o, self.F.HRG):
            return self.phrg(o)
        return self.pgraph(o)

    def pheap(self):
        return {h: self.pobj(o) for h, o in self.objs.items()}

    def graph_value(self, g):
        r = self.F.Graph()
        for n in g['nodes']:
            r.add_node(self.node(n))
        for e in g['edges']:
            r.add_edge(self.edge(e))
        r.ext = [self.node(n) for n in g['ext']]
        return r

    def rhs(self, ref):
        return self.objs['g1'] if ref['shared'] else self.graph_value(ref['g'])

    def dom(self, d):
        from fggs.domains import FiniteDomain, RangeDomain
        return RangeDomain(d['size']) if d['cls'] == 'range' else FiniteDomain(list(d['vals']))

    def fac(self, f):
        import torch
        from fggs.factors import FiniteFactor
        w = torch.tensor([float(x) for x in f['w']], dtype=torch.get_default_dtype()).reshape(f['shape'])
        return FiniteFactor([self.dom(d) for d in f['doms']], w)

    def rebuild(self, g):
        """A fresh Graph built through the public API from g's accessors (participant of == checks)."""
        r = self.F.Graph()
        for v in g.nodes():
            r.add_node(v)
        for e in g.edges():
            r.add_edge(e)
        r.ext = g.ext
        return r

    def types(self):
        """the .type every graph reports (label names), and for a grammar the .type of every rule's right-hand side"""
        out = {}
        for h, o in self.objs.items():
            if o is None:
                continue
            try:
                if isinstance(o, self.F.Graph):
                    out[h] = [l.name for l in o.type]
                else:
                    out[h] = [[l.name for l in r.rhs.type] for r in o.all_rules()]
            except Exception:
                out[h] = ['<raised>']
        return out

    def eq_matrix(self):
        parts = {h: o for h, o in self.objs.items() if o is not None}
        if 'g2' in self.objs:
            try:
                parts['r1'] = self.rebuild(self.objs['g1'])
            except Exception:
                pass
        m = {}
        for a, x in parts.items():
            m[a] = {}
            for b, y in parts.items():
                try:
                    m[a][b] = bool(x == y) and not bool(x != y)
                except Exception:
                    m[a][b] = False
        return m

    # ---- calls
    def apply(self, c) -> str:
        """Apply one call; returns 'ok' | 'raise' | 'skip' (handle absent)."""
        op, h = c['op'], c['h']
        g = self.objs.get(h)
        if g is None and op not in ('new', 'new_hrg'):
            return 'skip'
        other = {'g1': 'g2', 'g2': 'g1', 'h1': 'h2', 'h2': 'h1'}[h]
        F = self.F
        try:
            with warnings.catch_warnings():
                warnings.simplefilter('ignore')
                if op == 'add_node':
                    g.add_node(self.node(c['n']))
                elif op == 'remove_node':
                    g.remove_node(self.node(c['n']))
                elif op == 'add_edge':
                    g.add_edge(self.edge(c['e']))
                elif op == 'remove_edge':
                    g.remove_edge(self.edge(c['e']))
                elif op == 'set_ext':
                    g.ext = [self.node(n) for n in c['x']]
                elif op == 'copy':
                    self.objs[other] = g.copy()
                    self.sharers.discard(other)
                elif op == 'from_graph':
                    self.objs[other] = F.FactorGraph.from_graph(g)
                    self.sharers.discard(other)
                elif op == 'new_hrg':
                    st = c['start']
                    cls = F.FGG if c['kind'] == 'fgg' else F.HRG
                    self.objs[h] = cls(None if st['name'] == '' else self.label(st))
                    self.sharers.discard(h)
                elif op == 'set_start':
                    g.start = self.label(c['lab'])
                elif op == 'set_start_str':
                    g.start = c['name']
                elif op == 'add_edge_label':
                    g.add_edge_label(self.label(c['lab']))
                elif op == 'add_node_label':
                    g.add_node_label(F.NodeLabel(c['nl']))
                elif op == 'add_rule':
                    g.add_rule(F.HRGRule(self.label(c['lhs']), self.rhs(c['rhs'])))
                    if c['rhs']['shared']:
                        self.sharers.add(h)
                elif op == 'new_rule':
                    g.new_rule(c['name'], self.rhs(c['rhs']))
                    if c['rhs']['shared']:
                        self.sharers.add(h)
                elif op == 'add_domain':
                    g.add_domain(F.NodeLabel(c['nl']), self.dom(c['dom']))
                elif op == 'add_factor':
                    g.add_factor(self.label(c['el']), self.fac(c['fac']))
                elif op == 'new':
                    self.objs['g2'] = self.F.FactorGraph() if self.machine == 'fgraph' else self.F.Graph()
                elif op == 'set_weights':
                    import torch
                    g.factors[c['name']].weights = torch.tensor([float(x) for x in c['w']], dtype=torch.get_default_dtype())
                else:
                    raise RuntimeError('unknown op ' + op)
            return 'ok'
        except RuntimeError:
            raise
        except Exception as e:  # the library raised: an outcome, not a harness failure
            self.exc = type(e).__name__
            return 'raise'
