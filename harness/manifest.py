"""Regenerates /verif/MANIFEST.json from the table below and validates it
(python3-vt has jsonschema).  Run:  /venv/bin/python -m harness.manifest"""
import json, subprocess, sys
from pathlib import Path

VERIF = Path(__file__).resolve().parent.parent

# pid -> (engine, technique, level text, level_note, design_ref)
CHECKS = {
 'C01': ('semantics', 'TLC enumerates rule shapes (MC_Grammar) + seeded abstract grammars -> fggs.sum_products x 4 semirings x 3 methods x 2 dtypes -> TLC judge (Trace_SumProduct) compares every tensor entry with the sum-product computed by definition (Semantics.tla) on exact carriers',
         'Every start-rule shape of a small universe (<=2-3 nodes, <=2-3 edges incl. nullary, repeated attachment, rule-less nonterminal, edgeless nodes/externals) exhaustively, plus seeded grammars with up to 4 nonterminals, zero and infinite weights; the oracle is an independent definitional evaluation in TLA+ with exact integer arithmetic, itself checked to be a fixed point of the equations (R3).',
         'Trusted: TLC, Semantics.tla, the projection of floats onto the integer carrier (exact for Real/Viterbi/Bool, an interval of naturals within 1e-4/1e-9 of exp(result) for Log). Weights are integers or infinite; float rounding on general weights is outside the model.', 'DESIGN.md#c01'),
 'C02': ('recursive', 'recursive grammars on the dyadic grid built by reverse construction + seeded Bool / integer-log-weight grammars -> sum_products x 3 methods x tol x kmax (starved budgets included) -> TLC judge (Trace_Recursive): TLC PROVES the least fixed point (exact fixed point of the equations on the grid and Jacobian infinity-norm q<1, hence unique in the box) or computes it by Kleene stabilisation (Bool, max-plus); no warning => value within tol/(1-q); linear on non-linearly-recursive grammars raises ValueError; the solver-driver event log of every call (hook) is validated against the state machine spec/Solver.tla (components are the SCCs in dependency order, each nonterminal solved once, warning iff the iteration budget was exhausted)',
         '120 (quick) / 1100 (thorough) recursive grammars (linear, non-linear, mutual recursion, tensor-valued nonterminals, weight-one cycles in max-plus) x {Real, Log} or {Bool, Viterbi} x 3 methods x tolerances 1e-2/1e-4/1e-6 x budgets kmax 0,1,2,3,10,1000 x 2 dtypes; the oracle is a machine-checked certificate, not a second numeric solver.',
         'Trusted: TLC, Semantics.tla (fixed-point carriers with exact / directed rounding, CertExact, CertQ), the Banach a-posteriori bound tol/(1-q)+2 grid units (Log: tolerance scaled by the largest value). Grammars whose certificate TLC cannot prove (q>=1) only get the sound lower-bound clause. "Error vanishes as tol does" is sampled at three tolerances.', 'DESIGN.md#c02'),
 'C03': ('gradients', 'seeded non-recursive grammars (natural weights) and recursive grammars on the dyadic grid -> backward through sum_product for Real and Log, 3 methods, cotangents on the start tensor -> TLC judge (Trace_Grad): formal derivative of the sum-product polynomial by dual numbers in Semantics.tla (exact for Real, exact rational w dZ/dw / Z for Log), enclosure of the derivative of the TLC-proved least fixed point for recursive grammars',
         'Every entry of every factor gradient of 120 (quick) / 1500 (thorough) non-recursive grammars (shared factors, zero weights, factors that cannot reach the start, absent gradients) is compared with the exact derivative; for 40 / 400 certified recursive grammars with an enclosure of width 8/1024 obtained by Kleene iteration of the dual system with directed rounding and a post-fixed-point test.',
         'Trusted: TLC, Semantics.tla dual carriers, projection of gradients (exact integers / scaled by 1e4 / grid units). Recursive Log gradients and derivatives at infinite weights are outside; requires_grad_ is set after factor construction as bin/sum_product.py does.', 'DESIGN.md#c03'),
 'C04': ('viterbi', 'seeded grammars with integer log-weights (recursive with weights <= 0, non-recursive any sign; edgeless nodes, all-external rules, nullary rules, size-1 domains, ties) x every start assignment -> fggs.viterbi, derive(), Viterbi sum_product -> TLC judge (Trace_Viterbi): well-formed derivation, values in domains, externals agree with the parent, total log-weight = least fixed point on max-plus (Kleene to stabilisation) = Viterbi sum_product = weight of the derived graph and assignment',
         'All start assignments of 260 (quick) / 4000 (thorough) grammars; the returned FGGDerivation is serialised through its public fields and judged structurally and by weight against the max-plus least fixed point computed by the specification; any maximiser is accepted.',
         'Trusted: TLC, Semantics.tla (max-plus carrier), Derive.tla well-formedness, the serialisation of the derivation. Start assignments without a finite attained maximum carry no verdict. Recursive rules applicable at log-weight 0 that tie with the best derivation are a recorded finding (RecursionError).', 'DESIGN.md#c04'),
 'C05': ('factorize', 'seeded grammars + label-collision grammars + min_fill-suboptimal witnesses -> factorize_rule/hrg/fgg x 3 methods on real rules -> TLC judge (Trace_Factorize): fresh-nonterminal discipline, inlining up to isomorphism, width clauses with TLC treewidth DP; sum_products of the factorized FGG judged by Trace_SumProduct',
         'Every rule of 80+ (quick) / 770+ (thorough) seeded grammars (isolated nodes, several components, nullary/repeated-attachment edges, externals anywhere, up to 5 nodes) through all three entry points and methods; TLC inlines the fresh nonterminals and searches for an isomorphism with the original rule (exhaustive up to 6 nodes), checks no rule got wider and that exact methods reach treewidth+1 (treewidth by subset DP, witnesses of 7-8 nodes where min_fill is sub-optimal); the factorized FGG has the same sum-product (exact, nat carrier).',
         'Trusted: TLC, Factorize.tla + TreeDec.tla + Semantics.tla, the projection of rules (node ids to integers). Beyond 6 nodes only the identity-on-ids isomorphism is tried (uncertified otherwise, never an alarm).', 'DESIGN.md#c05'),
 'C06': ('axes', 'seeded typed patterns -> real PatternedTensors -> every operation of the class against torch on to_dense() -> TLC judge (Trace_Tensor): to_dense() equals the denotation PtDense computed by Axes.tla from the structure, results equal torch on dense, every result structure and (hook FGGS_VERIF) every PatternedTensor built inside the library satisfies the representation invariant; reshape/view obligations by MustReshape',
         '22 (quick) / 160 (thorough) typed shapes x 3-4 patterns x ~45 unary, ~22 binary operations, where, stack, copy_, indexing, iteration, reshape/view targets (all adjacent merges, unit insertions, arbitrary factorizations), float64/float32/bool, contiguous and transposed physical layouts, defaults 0/1/5/+-inf/NaN; the denotation is computed by the specification (index arithmetic of nested product/sum axes), not by the library.',
         'Trusted: TLC, Axes.tla, the float encoding round(1000 v) with tolerance 1+1e-5 relative (structural errors move values by far more), the structure read-back (paxes/vaxes/default/physical). Typed patterns only: sharing one physical axis between positions of different index types is the documented type mismatch and is excluded. Index types: numel<=6, depth<=2, <=3 axes.', 'DESIGN.md#c06'),
 'C07': ('einsum', 'seeded typed einsum signatures and operand patterns on exact carriers -> fggs.indices.einsum / mv / mm / log_viterbi_einsum_forward (with and without requires_grad) -> TLC judge (Trace_Einsum): operand denotations by Axes!PtDense, result = semiring sum over the non-output indices of the product by definition, Viterbi pointers in range and attaining the maximum',
         '720 (quick) / 13 500 (thorough) signatures with <=4 typed indices and <=3 operands (incl. the empty operand list, zero-size and size-1 indices, repeated co-indexing across operands), operands with diagonal / sum-axis / product patterns, stride-0 expanded physical tensors, defaults zero/one/other, 4 semirings x 2 dtypes x requires_grad on/off; expected values are computed by TLC from the structures alone on exact carriers.',
         'Trusted: TLC, Einsum.tla + Axes.tla + Semantics.tla (carrier arithmetic), carrier projections. Typed operands only. The Viterbi variant with both +inf and -inf operands is a recorded finding (third-party product).', 'DESIGN.md#c07'),
 'C08': ('semiring', 'TLC proves the laws on the carriers (MC_Semiring, R3) -> add/mul/sub/star/sum/from_int of the 4 semirings on all pairs/triples of carrier points, on Tensors and on PatternedTensors of 6 patterns, and on powers of two over the whole range of float32 / float64 abstracted to sign, binade and exactness by frexp (Binade.tla) -> TLC judge (Trace_Semiring) against the carrier operations',
         'All triples of carrier points (naturals incl. 0 and INF; integer log-weights incl. -INF/+INF; booleans; quarters for star) for every law, both dtypes, and all pairs of operand representations (dense, expanded, diagonal with default zero/one/INF, sum-axis embedding) for add/mul/sub; on the binade carrier all pairs of 21 exponents per format (smallest subnormal to largest finite, around the mantissa width) with zero and the infinite element: products, sums in both orders, identities, annihilation, re-association and distribution where no partial result is rounded, sub-then-add, star of powers of two, star at 1 - 2^-k for every k up to the mantissa width (Real) and down to the smallest subnormal log-weight (Log).',
         'Trusted: TLC, Semiring.tla, Binade.tla (IEEE round-to-nearest-even on powers of two described with integers), math.frexp. Arbitrary finite floats cannot be enumerated by TLC and the laws do not hold bit-exactly under rounding or overflow: mantissas other than 1 are covered only on the small exact carrier, and a product or re-association whose exact value leaves the format or needs rounding carries no claim.', 'DESIGN.md#c08'),
 'C09': ('linsolve', 'seeded systems and block structures on exact carriers (plus quarter-valued contractions with a TLC-verified certificate) -> Semiring.solve / PatternedTensor.solve / multi_solve (transpose) / multi_mv -> TLC judge (Trace_LinSolve): least solution by Kleene + divergence closure, on the naturals by the structure of the support graph (LinSolve.tla; R3 MC_LinSolve: solution, above all iterates, least among solutions, structural = iterative), arguments unmodified',
         '1080 (quick) / 17 000 (thorough) systems with n<=4 (n<=7 for block index sets with several dimensions such as (2,2), (3,2), (2,1,2)): zero rows, cycles of weight 1 and >1 (infinite least solution), infinite entries, spectral radius <1 through certified quarter-valued matrices; every subset of present blocks over <=3 block indices with scalar/vector/2-D blocks and absent diagonal blocks; patterned A and b from the typed pattern generator; 4 semirings, both dtypes, transpose on/off.',
         'Trusted: TLC, LinSolve.tla, the assembly of block systems into one global matrix by the driver, carrier projections. Real systems with irrational/large-denominator solutions are outside the exact carriers.', 'DESIGN.md#c09'),
 'C10': ('treedec', 'TLC enumerates all graphs (MC_TreeDec; R3: DP treewidth = min over all elimination orders) -> tree_decomposition x 3 methods, min_fill, minor_min_width, quickbb -> TLC judges validity and optimality by definition (Trace_TreeDec)',
         'Exhaustive over every labelled simple graph on <=5 (quick) / <=6 (thorough) vertices in two vertex insertion orders, structured graphs (cliques, paths, cycles, stars, grids) and seeded graphs on 7-9 vertices; TLC decides tree-ness, coverage, running intersection and computes the treewidth by subset DP, itself cross-checked against all elimination orders (R3).',
         'Trusted: TLC, TreeDec.tla (definition of tree decomposition, treewidth DP), the driver that converts the returned dict of frozensets into bags/edges. Empty graph: only validity (width conventions differ).', 'DESIGN.md#c10'),
 'C11': ('config-matrix', 'seeded non-recursive grammars and TLC-certified recursive grammars -> the configuration matrix method x j_precompute x dtype x semiring (+ gradients) executed in worker processes started as python / python -O / python -OO, and bin/sum_product.py itself under -OO with -d -G [-j] -> TLC judges (Trace_Config, Trace_Recursive): every configuration yields the one definitional value and gradient; Bool = support of Real and max-product <= sum-product proved at model level on each grammar',
         '54 (quick) / 550 (thorough) grammars x ~100 configurations each, three interpreter optimisation levels as separate processes, the shipped command-line tool on JSON files; agreement between configurations follows from agreement of each with the single specification value (exact carriers; certified least fixed points for recursive grammars).',
         'Trusted: TLC, Semantics.tla, projections. j_precompute=True is defective for three structural classes of rules (edge sharing no node with the others, edge-less node, repeated attachment): recorded findings with spec-evaluated signatures; everything outside those classes is still gated, and a family of grammars built to lie outside them (unit rules with internal nodes / permuted attachments) makes every j_precompute disagreement there a violation.', 'DESIGN.md#c11'),
 'C12': ('builder', 'TLC builder machine (MC_Builder) generates construction schedules (-simulate; R3 Confluent) -> replayed on the real API on re-ordered / renamed / value-permuted presentations with explicit or implicit ids -> sum_products -> TLC judge (Trace_Present): observed = meaning(presented) and, model-level, meaning(presented) = renamed/permuted meaning(original)',
         '280 (quick) / 4 500 (thorough) TLC-generated construction schedules over presentations of seeded grammars: order of add_node/add_edge/add_rule/add_domain/add_factor/add_edge_label calls, rule/node/edge order, label renaming, domain-value permutation with factor axes, explicit (unique or rule-local) vs implicit ids, productions written twice; 4 semirings, 3 methods, 2 dtypes; every result must equal the exact meaning of the presented grammar, which TLC proves to be the permuted meaning of the original.',
         'Trusted: TLC, Semantics.tla, the presentation generator (its correctness is itself checked by the model-level theorem: a wrong permutation makes the check fail as machinery error, exit 2). Non-recursive targets; gradients / viterbi weights under re-presentation are exercised through the C03/C04 oracles.', 'DESIGN.md#c12'),
 'C13': ('axes', 'seeded pairs of typed patterns (independent, re-patterned copies, one perturbed cell, differing defaults, NaN, clone/freshen/densified, views of the tensor itself that share its physical axes: T / transpose / permute of symmetric and asymmetric matrices and 3-way tensors) and MultiTensors with absent blocks -> equal / allclose (tolerance grid) / equal_default / allclose_default / MultiTensor.allclose -> TLC judge (Trace_Tensor) decides each answer on the denotations PtDense computed from the structures',
         'Every answer is recomputed by TLC from the two structures alone: dense equality, torch allclose rule |a-b| <= atol + rtol|b| in exact integer arithmetic (values are multiples of 1/4, tolerances dyadic), NaN per flag, symmetry of equal, absent MultiTensor block = zero.',
         'Trusted: TLC, Axes.tla, the structure read-back. Bounded index types as in C06.', 'DESIGN.md#c13'),
 'C14': ('jsonfmt', 'seeded abstract grammars (mixed explicit/implicit ids, finite/range domains, dense + diagonal/expanded patterned weights, INF entries, unused labels) -> fgg_to_json / json.dumps / json_to_fgg / second trip and malformed variants on the real code -> TLC judge (Trace_Json): JSON object = abstract grammar up to renaming of implicit ids (isomorphism search per rule), round trip, verbatim second trip, ValueError exactly on out-of-range numbers',
         'Each JSON object the library writes is itself handed to TLC and compared with the abstract grammar: label tables, types, start, rules of every left-hand side in order up to isomorphism with explicit ids preserved, domains, factor weights; the object read back is compared the same way; every attachment/external position is overwritten with -n-1,-n,-1,0,n-1,n,n+1.',
         'Trusted: TLC, JsonFmt.tla, the projection of weight lists to [shape, flat] integers. json_to_weights of patterned specifications (physical/expand/vaxes/default) is judged by the Axes denotation (Trace_Tensor), also under a float64 default dtype with values that need more than 24 bits (exact clause); one history serialise / update weights in place / serialise.', 'DESIGN.md#c14'),
 'C15': ('derive', 'seeded derivation trees -> TLC enumerates EVERY linearisation (Derive!DvLinearisations) -> start_graph/replace_edge replayed on real graphs along each, FGGDerivation.derive() on the same tree -> TLC judge (Trace_Derive): per-step replacement post-condition, final graph = the graph derived by definition under canonical naming',
         'All linearisations (schedules) of each of 140 (quick) / 1500 (thorough) seeded derivation trees with <=4 / <=5 rule instances (complete and partial, recursive grammars, nullary/repeated attachments, arity-0..2 nonterminals); every replace_edge step is judged against the replacement post-condition, every final graph against Derive.tla; derive() is judged for graph, totality of the assignment and product weight; wrong-type replacements must raise and leave the graph unchanged.',
         'Trusted: TLC, Derive.tla, the canonical naming done by the driver from the returned node_map/edge_map. Replacement graphs have distinct external nodes; tree size is bounded.', 'DESIGN.md#c15'),
 'C16': ('graphs-machine', 'TLC explores the Graphs heap machine (MC_Graph, MC_HRG: every mutator incl. failing calls; R3 invariants) and dumps every transition -> replayed on real Graph/HRG/FGG objects -> TLC trace judge (Trace_Graphs) checks well-formedness preserved, failure atomicity, copy equality/independence, == soundness',
         'Exhaustive TRANSITION coverage of the bounded heap machine to call depth 3 (quick) / 4 (thorough) over a universe with id/label/type clashes, plus -simulate behaviours of depth 10-14; every observed call is judged by TLC on projections taken through public accessors only; the descriptive model is compared for drift (non-gating) and itself model-checked against the clauses (R3).',
         'Trusted: TLC, Graphs.tla normative predicates, the projection code in harness/graphsdrv.py. Universe is small (3-4 node values, 5-6 edge labels, 2 edge ids, 5 rule right-hand sides). A rule sharing its right-hand side Graph with the caller is a recorded finding (known_findings.json).', 'DESIGN.md#c16'),
 'C17': ('conjoin', 'seeded pairs of HRGs over shared rule skeletons (several rules per skeleton, name clashes, shared/duplicated terminal edges, g with g, implicit ids, genuine conflicts) -> conjoin_hrgs on the real grammars -> TLC judge (Trace_Conjoin): one rule per conjoinable pair with the paired nonterminal edges and the terminal edges of both, names injective and fresh, derivation counts = paired-derivation counts to depth 3, ValueError exactly on terminal conflicts',
         'Relational judgement of the whole conjoined grammar against Conjoin.tla for 240 (quick) / 3000 (thorough) grammar pairs in 8 modes; the naming of nonterminal pairs is a hint that TLC verifies (or re-derives by search for <=4 pairs); the one-to-one correspondence of derivations is checked through counts of derivations of depth <=3 on the observed grammar.',
         'Trusted: TLC, Conjoin.tla, the projection of the result (node/edge ids). One node label, nonterminals of arity 0/1 (0/1/2 with two external nodes listed in either order in mode ext2), <=3 skeletons.', 'DESIGN.md#c17'),
 'C18': ('session', 'TLC enumerates every history of queries up to the bound (MC_Session; R3: heap unchanged, equal queries give equal results) -> each history executed on the same real objects with deep snapshots (structure, storage bytes, sizes, strides, offsets, defaults, requires_grad, grad presence) digested before/after every call and canonical results digested; clone-then-in-place programs on PatternedTensors and MultiTensors -> TLC trace judge (Trace_Session)',
         'All 196 (quick, length 2) / 2744 (thorough, length 3) histories over an alphabet of 14 queries (sum_product x 5 semiring/method variants, sum_products, viterbi, factorize_rule/hrg/fgg, conjoin with itself / another, fgg_to_json, hrg_to_json) on 6 / 12 worlds (dense / requires_grad / patterned weights, recursive or not); every query is observed before and after every other; 12 in-place operations on clones of 60 / 600 typed patterned tensors and 5 on MultiTensor clones.',
         'Trusted: TLC (equality of digests along the session), the snapshot and canonicalisation code of the driver (SHA-1 over canonical JSON). A call that raises and changes its arguments is judged like one that returns. Purity of backward() itself (gradient accumulation into .grad) is user-requested mutation and not a query.', 'DESIGN.md#c18'),
 'C19': ('scc', 'TLC enumerates all digraphs (MC_Scc) -> fggs.utils.scc / nonterminal_graph (after every step of construction histories with detours) -> TLC judges recorded results against SCCs-by-definition (Trace_Scc); Tarjan state machine (Tarjan.tla, MC_Tarjan) refines the definition (R3) and is replayed against the observed visiting / emission order (drift only)',
         'Exhaustive over every digraph on <=3 (quick) / <=4 (thorough) vertices incl. self-loops, with all adjacency and vertex insertion orders, plus seeded digraphs to 8 vertices and seeded HRGs; each observed result is judged by TLC against the definitional components, partition and dependency order.',
         'Trusted: TLC, the 60-line definitional spec Scc.tla, the driver that builds the adjacency dict. Bounded by vertex count. The Tarjan machine is descriptive: a different visiting order is reported as drift, never as a violation.', 'DESIGN.md#c19'),
 'C20': ('domains', 'TLC enumerates all domains / pairs / factor specs (MC_Domains, R3 bijection) and all binding calls of the FGG heap machine (MC_HRG) -> real FiniteDomain/RangeDomain/FiniteFactor/FGG -> TLC judges (Trace_Domains, Trace_Graphs)',
         'Every finite domain over a 3-value universe in every order and every range domain 0..3, given as list/tuple/iterator/generator; every pair for equality; every factor over <=2 domains with the right and 7 kinds of wrong weight shapes given as nested list/Tensor/PatternedTensor; apply on every value tuple; shape via label/edge/nodes/node labels; every add_domain/add_factor pairing incl. re-binding to depth 4-5 of the heap machine; 14 322 TLC-enumerated bindings (label types over two node labels up to arity 3 with repeated labels x 4 domains per node label x every factor-domain tuple of arity -1..+1) judged by BindAllowed position by position; domains built from a list that the caller changes afterwards.',
         'Trusted: TLC, Domains.tla, Graphs.tla binding clause, the value encoding of the driver. Domain values are hashable python values of 3 kinds; sizes 0..3.', 'DESIGN.md#c20'),
}

# session 4: what was added to each check (appended to technique / level text)
ADDENDA = {
 'C02': ('; Log-semiring runs of globally linear grammars whose constant rules carry a factor exp(-280) (all values shifted by exactly -280: the same iteration at another magnitude); non-linear rules with a factor no other rule mentions, written after the recursive edges; residuals against the certificate in units of 2^-40 for float64 runs with tol <= 1e-5 and tol = 0 (clause ErrorVanishesAsTolDoes); the history solve / add_rule / solve on one grammar object; mutual recursion with self-loops; every sum_products call of the repository\'s own tests validated against the driver machine (pytest plugin harness/tracer_sp.py)',
         ' Log runs at magnitude -280 (homogeneity of linear systems), judged after shifting back.'),
 'C01': ('; empty domains (an edge-less node over an empty domain contributes the factor 0); every factor held as a view at a non-zero storage offset of a larger table',
         ''),
 'C07': ('; family disjoint: operands co-indexed on an index of disjoint-union type (at the top or inside a product, product-form operands) and on a further index met later',
         ''),
 'C03': ('; signed cotangents (losses such as -Z, -log Z): enclosures of recursive gradients turn around for negative entries; rules with two edges on the same two nodes in opposite orders',
         ' Cotangent entries in {-2,-1,0,1,2}.'),
 'C06': ('; part axis_algebra: TLC enumerates EVERY pair of typed axis lists for a catalogue of index-type shapes (MC_AxisAlg; R3: typed lists are injective patterns, solutions of es = fs are the common support) -> Axis.unify / antiunify / stride / index / numel / fv / freshen / alpha on the real Axis objects -> TLC judge (Trace_AxisAlg, AxisAlg.tla): the unifier parametrises exactly the solution set of the equations, once each, and fails only when there is none; the generalisation instantiates to both operands; stride is the affine form of the index map; index inverts it',
         ' Axis algebra: all 1930 (quick: a seeded 700 of them) / all pairs of a larger catalogue (thorough) of axis-list pairs with shared or disjoint physical axes, plus seeded deeper nestings.'),
 'C08': ('; histories on ONE semiring object: accumulators that are the very tensors from_int handed out, updated in place by add_, then the constants and identities again; operands the operation has to broadcast (vector, row, column; also first); every semiring has solved a linear system in the process before the laws on the whole float range are observed',
         ''),
 'C09': ('; a and b drawing their PhysicalAxis objects from one typed pool (b names axes of a), the swap matrix a[(p,q),(q,p)] against one-hot right-hand sides; Log-semiring cycles of weight 1 - 2^-k for k up to the smallest subnormal (self-loop and 2-cycle; Semiring.solve, PatternedTensor.solve, multi_solve): least solution k ln 2 (LinSolve!LsNearOneOK)',
         ' 54 (quick) / ~650 (thorough) systems next to the radius of convergence in float32 and float64.'),
 'C11': ('; gradients (Real and Log) of recursive grid grammars with an unproductive nonterminal per interpreter level; Log runs at magnitude -280 for every method',
         ''),
 'C12': ('; RECURSIVE grid grammars (least fixed point proved by TLC) under re-ordered rules, re-ordered edges inside rules, renumbered nodes and re-ordered label registration, judged by Trace_Recursive against the one certificate',
         ' 64 (quick) / 500 (thorough) presentations of certified recursive grammars.'),
 'C13': ('; NaN defaults (as .grad uses) against re-patterned and densified copies that store the NaNs, with equal_nan, in both directions',
         ''),
 'C14': ('; weights held as permuted views (vaxes a non-identity permutation of paxes, non-square shapes)',
         ''),
 'C15': ('; the same tree with identical subderivations built ONCE and used at several positions (shared FGGDerivation objects)',
         ''),
 'C16': ('; the observed .type of every graph and of every rule right-hand side after every call; FactorGraph handles with set_ext and FactorGraph.from_graph in the heap machine; the empty domain among the bindable domains',
         ''),
 'C17': ('; mode nt_named_like_term: a nonterminal of one grammar named like a terminal of the other; history_mutate (conjoin, edit a right-hand side in place, conjoin again); conflict_hidden (a harmless clash earlier in label order than a genuine terminal conflict)',
         ' 11 modes.'),
 'C18': ('; the snapshot also holds process-wide state (autograd mode, default dtype, the constants fresh semiring objects hand out); a query that fails (start assignment outside the domain / no iteration budget) is part of the alphabet; a world whose nullary nonterminal is a structural zero in the first iteration; the reference run of every query on fresh objects is itself a judged history; == with copies taken before any query, contains / numberize / denumberize probes of every domain, tuple-valued FiniteDomains, an unused rule-less nonterminal',
         ' Alphabet of 16 queries: 256 (quick) / 4096 (thorough) histories.'),
 'C19': ('; vertex objects of several kinds (ints from 0, strings with the empty string, tuples with the empty tuple, floats): falsy vertices included; grammars in which two rules with different left-hand sides share ONE right-hand-side Graph object',
         ''),
 'C20': ('; apply / replace or update the weights in place / apply again; factor pairs whose weights differ by 2^-20 in one entry (float32 and float64); factors whose weights are differently laid-out views of one tensor; the empty domain in the binding machine',
         ''),
}

PENDING = {}   # pid -> reason (filled below for every property without a check)

ALL = [f'C{i:02d}' for i in range(1, 21)]


def build():
    checks = []
    for pid, (engine, tech, text, note, ref) in sorted(CHECKS.items()):
        tech, text = tech + ADDENDA.get(pid, ('', ''))[0], text + ADDENDA.get(pid, ('', ''))[1]
        checks.append({
            'property_id': pid,
            'quick_cmd': f'./check {pid} --tier quick',
            'thorough_cmd': f'./check {pid} --tier thorough',
            'evidence_file': f'evidence/{pid}.json',
            'replay_cmd_template': f'./check {pid} --replay {{path}}',
            'engine': engine,
            'level_claimed': {'category': 'model_checking', 'text': text, 'design_ref': ref},
            'level_note': note,
            'technique': tech,
        })
    na = [{'property_id': p, 'reason': PENDING.get(p, 'check not built yet in this round (see DESIGN.md section 7 build order); the TLA+ technique applies, nothing is claimed until the check exists')}
          for p in ALL if p not in CHECKS]
    m = {
        'version': 1,
        'setup_cmd': './setup.sh',
        'hooks': {
            'guard': 'FGGS_VERIF',
            'enable': 'checks run /venv/bin/python with PYTHONPATH=/repo and FGGS_VERIF=1 (pure Python, nothing to build)',
            'baseline_off_cmd': 'cd /repo && env -u FGGS_VERIF /venv/bin/python -m pytest -ra -q -p no:cacheprovider --timeout=900 --continue-on-collection-errors',
            'source_commits': HOOK_COMMITS,
            'add_only': True,
        },
        'engines': [
            {'name': 'tlc', 'path': 'spec/', 'serves_properties': sorted(CHECKS), 'kind_free_text': 'TLA+ specification modules (spec/*.tla) checked with TLC: bounded model checking (MC_*), batch trace judging (Trace_*)'},
            {'name': 'harness', 'path': 'harness/', 'serves_properties': sorted(CHECKS), 'kind_free_text': 'Python drivers replaying TLC-generated behaviours/inputs into the real fggs code and recording session traces for TLC to judge'},
        ],
        'checks': checks,
        'not_applicable': na,
        'notes': 'Every verdict is taken by TLC on observed behaviour of the real code (trace validation). Exit 2 = machinery failure, never a verdict. known_findings.json lists recorded defects.',
    }
    return m


HOOK_COMMITS = ['107ce0d', 'e7a5070']

if __name__ == '__main__':
    m = build()
    (VERIF / 'MANIFEST.json').write_text(json.dumps(m, indent=1) + '\n')
    code = ("import json,jsonschema;jsonschema.validate(json.load(open('/verif/MANIFEST.json')),"
            "json.load(open('/root/.vp/MANIFEST.schema.json')));print('MANIFEST valid')")
    sys.exit(subprocess.call(['python3-vt', '-c', code]))
