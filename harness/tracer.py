"""pytest plugin: run the repository's OWN test-suite as a trace source for the heap machine (C16).
Loaded with `-p harness.tracer`; wraps the public mutators of Graph / FactorGraph / HRG / FGG at
import time (no repository change), records one event per OUTERMOST call -- projection of the
receiver before and after, outcome -- and writes them to $VERIF_TRACE_OUT at session end.  The
events are judged by spec/Trace_Graphs.tla with the same normative clauses as the TLC-generated
behaviours (well-formedness preserved, failure atomicity, copy equality)."""
import json, os, functools

_events = []
_depth = [0]


def _install():
    import fggs
    from fggs import fggs as F
    from .graphsdrv import Session
    S = Session.__new__(Session)
    S.F = fggs
    S.impl_nodes, S.impl_ids, S.objs, S.sharers, S.machine = {}, {}, {}, set(), 'trace'

    def proj(o):
        try:
            return S.pobj(o)
        except Exception as e:  # projection must never disturb the test
            return {'k': 'none', 'err': repr(e)[:80]}

    def wrap(cls, name, op):
        orig = cls.__dict__.get(name)
        if orig is None:
            return
        is_prop = isinstance(orig, property)
        fn = orig.fset if is_prop else orig

        @functools.wraps(fn)
        def wrapper(self, *a, **kw):
            if _depth[0] > 0 or len(_events) > 60000:
                return fn(self, *a, **kw)
            _depth[0] += 1
            try:
                pre = proj(self)
                out, res, exc = 'ok', None, None
                try:
                    res = fn(self, *a, **kw)
                except Exception as e:
                    out, exc = 'raise', e
                post = proj(self)
                ev = {'op': op, 'out': out, 'pre': {'g1': pre, 'g2': {'k': 'none'}}, 'post': {'g1': post, 'g2': {'k': 'none'}},
                      'eq': {}, 'test': os.environ.get('PYTEST_CURRENT_TEST', '').split(' ')[0]}
                if op == 'copy' and out == 'ok':
                    ev['post']['g2'] = proj(res)
                    try:
                        e1, e2 = bool(self == res), bool(res == self)
                    except Exception:
                        e1 = e2 = False
                    ev['eq'] = {'g1': {'g1': True, 'g2': e1}, 'g2': {'g1': e2, 'g2': True}}
                _events.append(ev)
                if exc is not None:
                    raise exc
                return res
            finally:
                _depth[0] -= 1
        if is_prop:
            setattr(cls, name, property(orig.fget, wrapper, orig.fdel, orig.__doc__))
        else:
            setattr(cls, name, wrapper)

    for cls in (F.Graph, F.FactorGraph):
        for name, op in (('add_node', 'add_node'), ('remove_node', 'remove_node'), ('add_edge', 'add_edge'), ('remove_edge', 'remove_edge'),
                         ('ext', 'set_ext'), ('copy', 'copy'), ('new_node', 'add_node'), ('new_edge', 'add_edge')):
            wrap(cls, name, op)
    for cls in (F.HRG, F.FGG):
        for name, op in (('add_rule', 'add_rule'), ('new_rule', 'new_rule'), ('start', 'set_start'), ('copy', 'copy')):
            wrap(cls, name, op)
    for cls in (F.LabelingMixin,):
        wrap(cls, 'add_edge_label', 'add_edge_label')
        wrap(cls, 'add_node_label', 'add_node_label')
    for cls in (F.InterpretationMixin,):
        wrap(cls, 'add_domain', 'add_domain')
        wrap(cls, 'add_factor', 'add_factor')
        wrap(cls, 'new_finite_domain', 'add_domain')
        wrap(cls, 'new_finite_factor', 'add_factor')


def pytest_configure(config):
    _install()


def pytest_sessionfinish(session, exitstatus):
    out = os.environ.get('VERIF_TRACE_OUT')
    if out:
        with open(out, 'w') as f:
            json.dump(_events, f)
