"""Shared plumbing: scratch dirs, TLC runner (single and sharded batch judge),
verdict parsing, evidence writer, known-findings matching.

Exit codes of a check:  0 held / 1 VIOLATION / 2 machinery failure.
"""
from __future__ import annotations
import json, os, re, shutil, subprocess, sys, tempfile, time, random, hashlib
from concurrent.futures import ThreadPoolExecutor
from dataclasses import dataclass, field
from pathlib import Path
from typing import Any, Dict, List, Optional, Sequence, Tuple

VERIF = Path(__file__).resolve().parent.parent
SPEC = VERIF / 'spec'
EVIDENCE = VERIF / 'evidence'
REPLAYS = VERIF / 'replays'
REPO = Path(os.environ.get('FGGS_REPO', '/repo'))
if str(REPO) != '/repo':
    REPLAYS = VERIF / 'replays' / 'other_tree'      # checks pointed at a scratch tree (seeded changes) keep their replays apart
NCPU = os.cpu_count() or 4

# sentinels shared with spec/Base.tla
INF = 1000000
NINF = -1000000
NAN = 7777777
NONINT = 5555555      # "a float that is not (close to) any integer": never equal to an expected value
ABSENT = 6666666      # e.g. grad is None


class MachineryFailure(Exception):
    """Anything that is not a verdict about the code under test (exit 2)."""


# --------------------------------------------------------------------------
# scratch

class Scratch:
    def __init__(self, tag='fggsverif'):
        base = os.environ.get('VERIF_SCRATCH')  # optional override; default system temp
        self.path = Path(tempfile.mkdtemp(prefix=tag + '.', dir=base))
    def __enter__(self):
        return self.path
    def __exit__(self, *a):
        if not os.environ.get('VERIF_KEEP_SCRATCH'):
            shutil.rmtree(self.path, ignore_errors=True)
        return False


# --------------------------------------------------------------------------
# TLC

TLC_CP = '/opt/veriftools/tla/tla2tools.jar:/opt/veriftools/tla/CommunityModules-deps.jar'

_STATS_RE = re.compile(r'(\d+) states generated, (\d+) distinct states found')
_SIM_RE = re.compile(r'The number of states generated: (\d+)')


@dataclass
class TLCResult:
    rc: int
    out: str
    states: int = 0          # distinct
    generated: int = 0       # transitions / generated states
    wall: float = 0.0
    printed: List[Any] = field(default_factory=list)   # decoded JSON payloads of PrintT(ToJson(..)) lines
    error: Optional[str] = None
    inv_violated: Optional[str] = None


def _decode_printed(out: str) -> List[Any]:
    """PrintT(ToJson(x)) prints a TLA+ string literal: "{\\"a\\":1}" -> decode twice."""
    res = []
    for line in out.splitlines():
        line = line.strip()
        if len(line) >= 2 and line[0] == '"' and line[-1] == '"' and (line[1] in '{[' or line[1:3] == '\\"'):
            try:
                s = json.loads(line)
                res.append(json.loads(s))
            except Exception:
                pass
    return res


def prepare_workdir(work: Path, extra_files: Dict[str, str] = None):
    work.mkdir(parents=True, exist_ok=True)
    for f in SPEC.glob('*.tla'):
        dst = work / f.name
        if not dst.exists():
            shutil.copy(f, dst)
    for name, text in (extra_files or {}).items():
        (work / name).write_text(text)


def run_tlc(work: Path, module: str, cfg: str, *, workers: int = 1, args: Sequence[str] = (),
            timeout: int = 3600, heap: str = '4g', env: Dict[str, str] = None,
            allow_inv_violation: bool = False, decode: bool = True) -> TLCResult:
    """Run TLC on work/<module>.tla with config text `cfg` (written to work/<module>.cfg
    unless cfg names an existing file in SPEC)."""
    prepare_workdir(work)
    cfgname = module + '.cfg'
    if '\n' not in cfg and (SPEC / cfg).exists():
        shutil.copy(SPEC / cfg, work / cfgname)
    else:
        (work / cfgname).write_text(cfg)
    meta = work / ('meta_' + module)
    cmd = ["java", "-XX:+UseParallelGC", "-XX:ParallelGCThreads=2", '-Xmx' + heap, '-Xss64m', '-cp', TLC_CP, 'tlc2.TLC',
           '-workers', str(workers), '-metadir', str(meta), '-noGenerateSpecTE',
           '-config', cfgname, *args, module + '.tla']
    e = dict(os.environ)
    e.update(env or {})
    t0 = time.time()
    try:
        p = subprocess.run(cmd, cwd=work, capture_output=True, text=True, timeout=timeout, env=e)
    except subprocess.TimeoutExpired as ex:
        raise MachineryFailure(f'TLC timeout after {timeout}s on {module}') from ex
    wall = time.time() - t0
    out = p.stdout + p.stderr
    r = TLCResult(rc=p.returncode, out=out, wall=wall)
    m = None
    for m in _STATS_RE.finditer(out):
        pass
    if m:
        r.generated, r.states = int(m.group(1)), int(m.group(2))
    else:
        m = _SIM_RE.search(out)
        if m:
            r.generated = r.states = int(m.group(1))
    if decode:
        r.printed = _decode_printed(p.stdout)
    shutil.rmtree(meta, ignore_errors=True)
    if 'Invariant' in out and 'is violated' in out:
        mm = re.search(r'Invariant (\S+) is violated', out)
        r.inv_violated = mm.group(1) if mm else '?'
    bad = None
    if p.returncode != 0 and not (allow_inv_violation and r.inv_violated):
        bad = f'TLC exit {p.returncode}'
    for marker in ('Overflow when computing', 'StackOverflowError', 'OutOfMemoryError',
                   'Parsing or semantic analysis failed', 'TLC threw an unexpected exception',
                   'Error: ', 'was not in the domain', 'Attempted to'):
        if marker in out and not (allow_inv_violation and r.inv_violated and marker == 'Error: '):
            bad = (bad or '') + f' [{marker.strip()}]'
    if bad:
        r.error = bad
        lines = out.splitlines()
        first = next((i for i, l in enumerate(lines) if l.startswith('Error:') or 'Semantic errors' in l or 'exception' in l.lower()), max(0, len(lines) - 30))
        tail = '\n'.join(lines[max(0, first - 2):first + 25])
        raise MachineryFailure(f'TLC failed on {module}: {bad}\n{tail}')
    return r


def judge_batch(work: Path, module: str, cases: List[dict], *, cfg: str = None, shards: int = None,
                per_shard_min: int = 50, timeout: int = 3600, heap: str = '3g',
                cases_name: str = 'cases.json', consts: str = '', shared: Dict[str, Any] = None) -> Tuple[Dict[int, dict], int, int, float]:
    """Batch judge: every case gets a `tid` (1-based, global); the TLA+ module `module` reads
    cases.json, has Init == tid \\in 1..Len(Cases), and prints one ToJson verdict record
    [tid |-> .., v |-> "ok" | clause, ...] per case.  Sharded over parallel TLC processes.
    Returns ({tid: verdict}, states, transitions, wall)."""
    if not cases:
        return {}, 0, 0, 0.0
    n = len(cases)
    if shards is None:
        shards = max(1, min(NCPU, n // per_shard_min))
    shards = max(1, min(shards, n))
    if cfg is None:
        cfg = 'INIT Init\nNEXT Next\nINVARIANT Judge\nCHECK_DEADLOCK FALSE\n' + consts
    chunks: List[List[dict]] = [[] for _ in range(shards)]
    for i, c in enumerate(cases):
        c = dict(c)
        c['gtid'] = i + 1
        chunks[i % shards].append(c)
    t0 = time.time()

    def one(k):
        w = work / f'shard{k}'
        prepare_workdir(w)
        (w / cases_name).write_text(json.dumps(chunks[k]))
        for name, obj in (shared or {}).items():
            (w / name).write_text(obj if isinstance(obj, str) else json.dumps(obj))
        return run_tlc(w, module, cfg, workers=1, timeout=timeout, heap=heap)

    with ThreadPoolExecutor(max_workers=shards) as ex:
        results = list(ex.map(one, range(shards)))
    verdicts: Dict[int, dict] = {}
    states = gen = 0
    for k, r in enumerate(results):
        states += r.states
        gen += r.generated
        for rec in r.printed:
            if isinstance(rec, dict) and 'gtid' in rec:
                verdicts[int(rec['gtid'])] = rec
    missing = [i + 1 for i in range(n) if (i + 1) not in verdicts]
    if missing:
        raise MachineryFailure(f'judge {module}: {len(missing)} of {n} cases got no verdict (first {missing[:5]})\n'
                               + results[0].out[-2000:])
    return verdicts, states, gen, time.time() - t0


# --------------------------------------------------------------------------
# number projection (floats -> the exact carriers of the specification)

def snap_int(v: float, rel: float = 1e-6) -> int:
    """Project a float the library returned onto the integer carrier: +-inf and nan map to
    sentinels, a value within `rel` (relative, abs below 1) of an integer maps to it,
    everything else to NONINT (which no expected value equals)."""
    import math
    if isinstance(v, bool):
        return int(v)
    if math.isnan(v):
        return NAN
    if math.isinf(v):
        return INF if v > 0 else NINF
    r = round(v)
    if abs(v - r) <= rel * max(1.0, abs(v)) and abs(r) < 900000:
        return int(r)
    return NONINT


def snap_exp(v: float, rel: float = 1e-4) -> int:
    """Project a log-domain float onto the natural-number carrier: exp then snap."""
    import math
    if math.isnan(v):
        return NAN
    if v == math.inf:
        return INF
    if v == -math.inf:
        return 0
    if v > 14:  # exp > 1.2e6: outside the carrier
        return NONINT
    return snap_int(math.exp(v), rel)


def snap_scaled(v: float, scale: int) -> int:
    """Fixed-point projection: floor(v*scale) (sentinels for inf/nan). Used with explicit
    tolerance clauses in the spec, never with equality."""
    import math
    if math.isnan(v):
        return NAN
    if math.isinf(v):
        return INF if v > 0 else NINF
    x = math.floor(v * scale)
    if abs(x) >= 900000:
        return NONINT
    return int(x)


# --------------------------------------------------------------------------
# known findings

def load_findings() -> List[dict]:
    p = VERIF / 'known_findings.json'
    if not p.exists():
        return []
    return json.loads(p.read_text()).get('findings', [])


def match_finding(findings: List[dict], pid: str, verdict: dict) -> Optional[dict]:
    """A rejection matches a recorded finding iff same property, same rejecting clause and the
    finding's signature tags are all among the tags the SPEC computed for the rejected case."""
    tags = set(verdict.get('tags', []) or [])
    for f in findings:
        if f.get('status', 'open') != 'open':
            continue
        if f['property'] != pid:
            continue
        if f.get('clause') not in (None, verdict.get('v')):
            continue
        if set(f.get('tags', [])) <= tags:
            return f
    return None


# --------------------------------------------------------------------------
# result aggregation / evidence

@dataclass
class Outcome:
    pid: str
    tier: str
    seed: int
    states: int = 0
    transitions: int = 0
    traces: int = 0
    samples: List[Any] = field(default_factory=list)
    violations: List[dict] = field(default_factory=list)     # each: {clause, case, ...}
    known_hits: Dict[str, int] = field(default_factory=dict)
    extra: Dict[str, Any] = field(default_factory=dict)
    assumptions: List[str] = field(default_factory=list)
    exhaustive: bool = False
    t0: float = field(default_factory=time.time)

    def add_tlc(self, r: TLCResult):
        self.states += r.states
        self.transitions += r.generated

    def sample(self, x, limit=4):
        if len(self.samples) < limit:
            self.samples.append(x)

    def absorb_verdicts(self, cases: List[dict], verdicts: Dict[int, dict], findings: List[dict],
                        part: str = ''):
        """Classify judge verdicts: ok / known finding / violation."""
        self.traces += len(cases)
        rej = 0
        for i, c in enumerate(cases):
            v = verdicts[i + 1]
            if v.get('v') == 'ok':
                continue
            rej += 1
            f = match_finding(findings, self.pid, v)
            if f is not None:
                self.known_hits[f['id']] = self.known_hits.get(f['id'], 0) + 1
            else:
                self.violations.append({'clause': v.get('v'), 'tags': v.get('tags', []), 'part': part,
                                        'detail': v.get('detail'), 'case': c})
        key = 'rejected_' + (part or 'all')
        self.extra[key] = self.extra.get(key, 0) + rej
        return rej


def write_evidence(o: Outcome):
    EVIDENCE.mkdir(exist_ok=True)
    cov = {
        'states': max(1, int(o.states)),
        'transitions': max(1, int(o.transitions)),
        'traces_validated_against_impl': int(o.traces),
        'samples': o.samples or ['(no sample recorded)'],
        'exhaustive': bool(o.exhaustive),
        'known_findings_hit': o.known_hits,
    }
    cov.update(o.extra)
    ev = {
        'property_id': o.pid, 'tier': o.tier, 'seed': int(o.seed), 'level': 'model_checking',
        'coverage': cov, 'assumptions': o.assumptions, 'wall_s': round(time.time() - o.t0, 2),
        'violations': len(o.violations),
    }
    (EVIDENCE / f'{o.pid}.json').write_text(json.dumps(ev, indent=1, default=str))


def finish(o: Outcome, findings: List[dict]) -> int:
    """Print KNOWN-FINDING / VIOLATION lines, write replay files and evidence; return exit code."""
    for fid, cnt in sorted(o.known_hits.items()):
        f = next(x for x in findings if x['id'] == fid)
        print(f"KNOWN-FINDING: property={o.pid} {fid}: {f['what']} (hit {cnt}x)")
    rc = 0
    if o.violations:
        REPLAYS.mkdir(parents=True, exist_ok=True)
        seen = {}
        for v in o.violations:
            key = (v['clause'], v.get('part'))
            seen[key] = seen.get(key, 0) + 1
            if seen[key] > 3:
                continue
            h = hashlib.sha1(json.dumps(v, sort_keys=True, default=str).encode()).hexdigest()[:10]
            path = REPLAYS / f'{o.pid}_{h}.json'
            path.write_text(json.dumps({'property': o.pid, **v}, indent=1, default=str))
            if seen[key] == 1:
                print(f"VIOLATION property={o.pid} replay={path} clause={v['clause']} part={v.get('part')}")
        o.extra['violation_clauses'] = sorted({f"{v.get('part')}:{v['clause']}" for v in o.violations})
        rc = 1
    write_evidence(o)
    dt = time.time() - o.t0
    print(f"[{o.pid}] tier={o.tier} seed={o.seed} states={o.states} transitions={o.transitions} "
          f"traces={o.traces} violations={len(o.violations)} known={sum(o.known_hits.values())} wall={dt:.1f}s")
    return rc


def pmap(func, items, procs: int = None, chunksize: int = 4):
    """Parallel map over forked worker processes (the drivers are CPU-bound pure Python/torch)."""
    items = list(items)
    if procs is None:
        procs = max(1, min(NCPU - 2, len(items) // 4))
    if procs <= 1 or len(items) < 8:
        return [func(x) for x in items]
    import multiprocessing as mp
    ctx = mp.get_context('fork')
    with ctx.Pool(procs) as pool:
        return pool.map(func, items, chunksize=chunksize)


def taken_behaviours(trans, key=lambda st: json.dumps(st, sort_keys=True)):
    """`tlc -simulate` evaluates the ACTION_CONSTRAINT dump on every CANDIDATE successor before it
    picks one, so the printed lines are groups of candidates per level.  Reconstruct the behaviours
    actually taken: in each group the chosen transition is the one whose post-state is the
    pre-state of the next group (lines need fields lvl, pre, post).  The last group of a behaviour
    has no successor group and is dropped."""
    groups = []
    for t in trans:
        if groups and groups[-1][0]['lvl'] == t['lvl'] and key(groups[-1][0]['pre']) == key(t['pre']):
            groups[-1].append(t)
        else:
            groups.append([t])
    behaviours, cur = [], None
    for gi, grp in enumerate(groups):
        if grp[0]['lvl'] == 1:
            cur = []
            behaviours.append(cur)
        if cur is None:
            continue
        nxt = groups[gi + 1] if gi + 1 < len(groups) else None
        if nxt is None or nxt[0]['lvl'] != grp[0]['lvl'] + 1:
            continue
        want = key(nxt[0]['pre'])
        chosen = next((t for t in grp if key(t['post']) == want), None)
        if chosen is None:
            cur = None      # cannot reconstruct further: stop this behaviour
            continue
        cur.append(chosen)
    return [b for b in behaviours if b]


def repo_tests_traced(work: Path, tests: Sequence[str], plugin: str = 'harness.tracer_sp', timeout: int = 1500):
    """Run some of the repository's own tests under a tracer plugin (harness/tracer*.py, pytest -p) with the guarded hooks
    on, and return what the plugin wrote.  A failing or crashing test run is a machinery failure, never a verdict."""
    out = work / 'repo_trace.json'
    env = dict(os.environ, FGGS_VERIF='1', VERIF_TRACE_OUT=str(out), PYTHONPATH=f'{REPO}:{VERIF}', OMP_NUM_THREADS='1')
    p = subprocess.run(['/venv/bin/python', '-m', 'pytest', '-q', '-p', 'no:cacheprovider', '-p', plugin, *tests],
                       cwd=str(REPO), env=env, capture_output=True, text=True, timeout=timeout)
    if not out.exists():
        raise MachineryFailure('tracer produced no output: ' + p.stdout[-300:] + p.stderr[-300:])
    return json.loads(out.read_text())


def rng_for(seed: int, tag: str) -> random.Random:
    return random.Random(f'{seed}:{tag}')
