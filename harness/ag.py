"""Abstract grammars (AG): the JSON form of an FGG that both sides understand.

{ "nls":   {"T": 2, ...}                              node label -> domain size
  "els":   {"a": {"t": true,  "type": ["T","U"]},     edge labels (t = terminal)
            "S": {"t": false, "type": []}},
  "elorder": ["S","a",...]                            registration order (presentation only)
  "start": "S",
  "rules": [ {"lhs":"S","nodes":["T","U"],            node i (1-based) has label nodes[i]
              "edges":[{"lab":"a","att":[1,2]}],"ext":[1]} ],
  "w":   {"a": [..flat row-major naturals / INF..]},  weights on the `nat` carrier
  "wmp": {"a": [..ints / NINF / INF..]} }             log-weights on the `mp` carrier

Seeded random generation (the `-simulate`-style input source) and construction of
the real fggs objects live here; the specification (spec/Semantics.tla) is the oracle.
"""
from __future__ import annotations
import math, itertools
from typing import Dict, List, Optional, Tuple
from .common import INF, NINF

PRIMES = [2, 3, 5, 7, 11, 13]


def shape_of(ag, label):
    return [ag['nls'][nl] for nl in ag['els'][label]['type']]


def numel(shape):
    n = 1
    for s in shape:
        n *= s
    return n


def nts_of(ag):
    return [n for n in ag['elorder'] if not ag['els'][n]['t']]


def terms_of(ag):
    return [n for n in ag['elorder'] if ag['els'][n]['t']]


def gen_ag(rng, *, n_nts=(1, 3), max_rules=2, max_nodes=3, max_edges=3, n_terms=(1, 4),
           dom_sizes=(1, 2, 3), n_nls=(1, 2), recursion='none', weights='primes',
           start_arity=(0, 0, 0, 1, 2), p_norules=0.1, max_arity=2, p_inf=0.0, p_zero=0.15,
           value_cap=1 << 18, mp_range=(-4, 4), allow_unused_terms=False):
    """recursion: 'none' (DAG of nonterminals), 'linear' (<=1 recursive edge per rule, SCCs allowed),
    'any'.  weights: 'primes' | 'small' (0..3) ; p_inf adds INF entries."""
    for _attempt in range(200):
        nls = {}
        for i in range(rng.randint(*n_nls)):
            nls['TUV'[i]] = rng.choice(dom_sizes)
        nlnames = list(nls)
        els = {}
        elorder = []
        nnt = rng.randint(*n_nts)
        ntnames = ['S', 'X', 'Y', 'Z'][:nnt]
        for i, n in enumerate(ntnames):
            ar = rng.choice(start_arity) if i == 0 else rng.randint(0, max_arity)
            els[n] = {'t': False, 'type': [rng.choice(nlnames) for _ in range(ar)]}
        tnames = []
        for i in range(rng.randint(*n_terms)):
            n = 'abcdef'[i]
            ar = rng.choice([0, 1, 1, 2, 2, 2, 3][:3 + 2 * max_arity]) if max_arity >= 2 else rng.randint(0, max_arity)
            ar = min(ar, max_arity + 1)
            els[n] = {'t': True, 'type': [rng.choice(nlnames) for _ in range(ar)]}
            tnames.append(n)
        elorder = ntnames + tnames
        rng.shuffle(elorder)
        rules = []
        for i, X in enumerate(ntnames):
            if i > 0 and rng.random() < p_norules:
                continue
            if recursion == 'none':
                allowed = ntnames[i + 1:]
            else:
                allowed = ntnames
            for _ in range(rng.randint(1, max_rules)):
                typ = els[X]['type']
                nodes = list(typ)
                ext = list(range(1, len(typ) + 1))
                for _k in range(rng.randint(0, max(0, max_nodes - len(nodes)))):
                    nodes.append(rng.choice(nlnames))
                # shuffle node positions so that externals are "anywhere"
                perm = list(range(len(nodes)))
                rng.shuffle(perm)
                nodes2 = [None] * len(nodes)
                for old, new in enumerate(perm):
                    nodes2[new] = nodes[old]
                ext = [perm[e - 1] + 1 for e in ext]
                nodes = nodes2
                edges = []
                nrec = 0
                for _k in range(rng.randint(0, max_edges)):
                    cands = tnames + allowed + allowed
                    lab = rng.choice(cands)
                    if not els[lab]['t'] and recursion == 'linear':
                        # at most one edge per rule may be in the same SCC; conservatively: one nt edge that can recurse
                        if ntnames.index(lab) <= i:
                            if nrec >= 1:
                                continue
                            nrec += 1
                    att = []
                    ok = True
                    for nl in els[lab]['type']:
                        c = [j + 1 for j, l in enumerate(nodes) if l == nl]
                        if not c:
                            ok = False
                            break
                        att.append(rng.choice(c))
                    if ok:
                        edges.append({'lab': lab, 'att': att})
                rules.append({'lhs': X, 'nodes': nodes, 'edges': edges, 'ext': ext})
        rng.shuffle(rules)
        w, wmp = {}, {}
        for t in tnames:
            n = numel([nls[nl] for nl in els[t]['type']])
            ws, wm = [], []
            for _ in range(n):
                r = rng.random()
                if r < p_zero:
                    ws.append(0)
                elif r < p_zero + p_inf:
                    ws.append(INF)
                elif weights == 'primes':
                    ws.append(rng.choice(PRIMES[:4]))
                else:
                    ws.append(rng.randint(1, 3))
                r = rng.random()
                if r < p_zero:
                    wm.append(NINF)
                elif r < p_zero + p_inf:
                    wm.append(INF)
                else:
                    wm.append(rng.randint(*mp_range))
            w[t], wmp[t] = ws, wm
        ag = {'nls': nls, 'els': els, 'elorder': elorder, 'start': 'S', 'rules': rules, 'w': w, 'wmp': wmp}
        if not allow_unused_terms:
            used = {e['lab'] for r in rules for e in r['edges']}
            for t in list(tnames):
                if t not in used:
                    del els[t], w[t], wmp[t]
                    elorder.remove(t)
        if recursion == 'none' and nat_bound(ag) > value_cap:
            continue
        return ag
    raise RuntimeError('gen_ag: could not satisfy value cap')


def is_j_clean(ag) -> bool:
    """no rule has an edge-less node, an edge sharing no node with the other edges (rules with >= 2 edges),
    or a repeated attachment: the rule shapes outside the recorded j_precompute findings (generation aid;
    the SPECIFICATION computes the finding signatures it matches on, see Trace_Config!SigTags)"""
    for r in ag['rules']:
        used = set()
        for e in r['edges']:
            if len(set(e['att'])) != len(e['att']):
                return False
            used |= set(e['att'])
        if used != set(range(1, len(r['nodes']) + 1)):
            return False
        if len(r['edges']) >= 2:
            for k, e in enumerate(r['edges']):
                others = set().union(*[set(f['att']) for m, f in enumerate(r['edges']) if m != k])
                if not (set(e['att']) & others):
                    return False
    return True


def gen_ag_j_clean(rng):
    """non-recursive grammars on which j_precompute has no recorded defect, built around UNIT RULES whose single
    edge has internal nodes or a permuted attachment (X(a) -> Y(a,c); X(a,b) -> f(b,a); X(a) -> f(c,a)), all node
    labels with the same domain size so that a transposed Jacobian block stays shape-correct"""
    k = rng.choice([2, 2, 3])
    nls = {'T': k}
    ax = rng.choice([1, 2])                     # arity of X
    ay = rng.choice([2, 3]) if ax == 1 else rng.choice([2, 3])
    as_ = rng.choice([0, 0, 1])
    els = {'S': {'t': False, 'type': ['T'] * as_}, 'X': {'t': False, 'type': ['T'] * ax}, 'Y': {'t': False, 'type': ['T'] * ay},
           'f': {'t': True, 'type': ['T', 'T']}, 'g': {'t': True, 'type': ['T']}, 'h': {'t': True, 'type': ['T'] * ay}}
    rules = []
    # S -> X(...) g(.) : all nodes used, edges share a node
    ns = max(as_, ax)
    att = list(range(1, ax + 1))
    rng.shuffle(att)
    rules.append({'lhs': 'S', 'nodes': ['T'] * ns, 'edges': [{'lab': 'X', 'att': att}, {'lab': 'g', 'att': [att[0]]}], 'ext': list(range(1, as_ + 1))})
    if as_ == 1 and rng.random() < 0.5:
        # a unit rule for the start symbol itself, internal node included
        rules.append({'lhs': 'S', 'nodes': ['T', 'T'], 'edges': [{'lab': 'f', 'att': rng.choice([[1, 2], [2, 1]])}], 'ext': [1]})
    # X(ext) -> Y(perm of ext + internal nodes): the unit rule
    ny = ay
    nodes = ['T'] * max(ax, ny)
    ext = list(range(1, ax + 1))
    yatt = list(range(1, ny + 1)) if ny >= ax else list(range(1, ax + 1))[:ny]
    rng.shuffle(yatt)
    if set(ext) <= set(yatt):
        rules.append({'lhs': 'X', 'nodes': nodes[:max(ax, ny)], 'edges': [{'lab': 'Y', 'att': yatt}], 'ext': ext})
    # X(ext) -> f(..) with an internal node or swapped order
    if ax == 1:
        rules.append({'lhs': 'X', 'nodes': ['T', 'T'], 'edges': [{'lab': 'f', 'att': rng.choice([[1, 2], [2, 1]])}], 'ext': [1]})
    else:
        rules.append({'lhs': 'X', 'nodes': ['T', 'T'], 'edges': [{'lab': 'f', 'att': rng.choice([[2, 1], [1, 2]])}], 'ext': [1, 2]})
    # Y: a unit rule over h with a permuted attachment, and a two-edge rule
    hatt = list(range(1, ay + 1))
    rng.shuffle(hatt)
    rules.append({'lhs': 'Y', 'nodes': ['T'] * ay, 'edges': [{'lab': 'h', 'att': hatt}], 'ext': list(range(1, ay + 1))})
    if rng.random() < 0.6:
        rules.append({'lhs': 'Y', 'nodes': ['T'] * ay, 'edges': [{'lab': 'f', 'att': [1, 2]}] + ([{'lab': 'f', 'att': [2, 3]}] if ay == 3 else [{'lab': 'g', 'att': [2]}]),
                      'ext': list(range(1, ay + 1))})
    rng.shuffle(rules)
    w, wmp = {}, {}
    for t in ('f', 'g', 'h'):
        n = k ** len(els[t]['type'])
        w[t] = [rng.choice([0, 1, 1, 2, 3]) for _ in range(n)]
        wmp[t] = [rng.randint(-3, 3) for _ in range(n)]
    elorder = ['S', 'X', 'Y', 'f', 'g', 'h']
    rng.shuffle(elorder)
    ag = {'nls': nls, 'els': els, 'elorder': elorder, 'start': 'S', 'rules': rules, 'w': w, 'wmp': wmp}
    assert is_j_clean(ag), ag
    if nat_bound(ag) > 20000:
        return gen_ag_j_clean(rng)
    return ag


def nat_bound(ag) -> int:
    """Crude upper bound of any sum-product entry for non-recursive AGs (generation-time filter
    that keeps TLC's 32-bit integers safe; NOT an oracle)."""
    nts = nts_of(ag)
    memo: Dict[str, int] = {}

    def b(X, depth=0):
        if X in memo:
            return memo[X]
        if depth > len(nts) + 1:
            return 1 << 40
        tot = 0
        for r in ag['rules']:
            if r['lhs'] != X:
                continue
            p = 1
            for nl in r['nodes']:
                p *= max(1, ag['nls'][nl])
            for e in r['edges']:
                if ag['els'][e['lab']]['t']:
                    m = max([x for x in ag['w'][e['lab']] if x != INF] + [1])
                    p *= m
                else:
                    p *= max(1, b(e['lab'], depth + 1))
            tot += p
        memo[X] = tot
        return tot
    return max([b(X) for X in nts] + [1])


def add_reversed_twin(rng, ag, value_cap=1 << 18):
    """A rule gets a second edge on the SAME two nodes in the OPPOSITE order (f(a,b) ... g(b,a)), with a
    fresh terminal g of the reversed type and weights that are not symmetric: anything keyed by the unordered
    node set of an edge (a cache, a sort) then confuses the axes of the two edges.  Returns ag unchanged when no
    rule has a binary edge on two distinct nodes or the value cap would be exceeded."""
    import copy
    cands = [(ri, ei) for ri, r in enumerate(ag['rules']) for ei, e in enumerate(r['edges'])
             if len(e['att']) == 2 and e['att'][0] != e['att'][1]]
    if not cands:
        return ag
    ri, ei = rng.choice(cands)
    b = copy.deepcopy(ag)
    r = b['rules'][ri]
    e = r['edges'][ei]
    name = 'g'
    assert name not in b['els']
    b['els'][name] = {'t': True, 'type': [r['nodes'][e['att'][1] - 1], r['nodes'][e['att'][0] - 1]]}
    b['elorder'].insert(rng.randrange(len(b['elorder']) + 1), name)
    n = numel(shape_of(b, name))
    b['w'][name] = [rng.choice([1, 2, 3, 0]) if k else 2 for k in range(n)]
    b['wmp'][name] = [rng.randint(-3, 3) for _ in range(n)]
    r['edges'].insert(rng.randrange(len(r['edges']) + 1), {'lab': name, 'att': [e['att'][1], e['att'][0]]})
    return b if nat_bound(b) <= value_cap else ag


def gen_factor_at_two_levels(rng):
    """S -> X(u,v) a(v,w) [c(w)];  X(x,y) -> a(x,y) b(x,y) [| d(x,y)]: one binary factor used INSIDE a nonterminal and again
    NEXT TO it (square domain).  The value tensors a rule produces inherit internal names from their operands, so which
    edge comes first decides what the gradient of the shared factor is expressed in."""
    n = rng.choice([2, 2, 3])
    els = {'S': {'t': False, 'type': []}, 'X': {'t': False, 'type': ['T', 'T']}, 'a': {'t': True, 'type': ['T', 'T']},
           'b': {'t': True, 'type': ['T', 'T']}}
    E = lambda lab, *att: {'lab': lab, 'att': list(att)}
    r1 = {'lhs': 'S', 'nodes': ['T', 'T', 'T'], 'edges': [E('X', 1, 2), E('a', 2, 3)], 'ext': []}
    r2 = {'lhs': 'X', 'nodes': ['T', 'T'], 'edges': [E('a', 1, 2), E('b', 1, 2)], 'ext': [1, 2]}
    rules = [r1, r2]
    if rng.random() < 0.5:
        els['c'] = {'t': True, 'type': ['T']}
        r1['edges'].append(E('c', 3))
    if rng.random() < 0.4:
        els['d'] = {'t': True, 'type': ['T', 'T']}
        rules.append({'lhs': 'X', 'nodes': ['T', 'T'], 'edges': [E('d', 2, 1)], 'ext': [1, 2]})
    for r in rules:
        rng.shuffle(r['edges'])
    rng.shuffle(rules)
    w = {t: [rng.choice([0, 1, 1, 2, 3]) for _ in range(n ** len(d['type']))] for t, d in els.items() if d['t']}
    wmp = {t: [rng.randint(-3, 2) for _ in range(n ** len(d['type']))] for t, d in els.items() if d['t']}
    eo = list(els)
    rng.shuffle(eo)
    return {'nls': {'T': n}, 'els': els, 'elorder': eo, 'start': 'S', 'rules': rules, 'w': w, 'wmp': wmp}


def add_shared_rhs_twin(rng, ag, reachable=True):
    """A second rule, for a NEW nonterminal W of the same type, whose right-hand side is THE SAME Graph object as an
    existing rule's (field 'share' = index of that rule; honoured by build_fgg / build_incremental).  Anything keyed by
    the identity of a right-hand side (a memo, a visited set) then confuses the two rules.  If `reachable`, the start
    rule set gets  S' -> ...  untouched but some rule that mentions X also gets a sibling mentioning W (same shape)."""
    import copy
    cands = [ri for ri, r in enumerate(ag['rules']) if any(not ag['els'][e['lab']]['t'] for e in r['edges'])] \
            or list(range(len(ag['rules'])))
    if not cands or 'W' in ag['els']:
        return ag
    b = copy.deepcopy(ag)
    ri = rng.choice(cands)
    r = b['rules'][ri]
    b['els']['W'] = {'t': False, 'type': list(b['els'][r['lhs']]['type'])}
    b['elorder'].insert(rng.randrange(len(b['elorder']) + 1), 'W')
    twin = copy.deepcopy(r)
    twin['lhs'] = 'W'
    twin['share'] = ri
    b['rules'].append(twin)
    if reachable:
        # a use of W wherever it keeps the grammar's recursion class: a copy of some rule using lhs X with X replaced by W
        users = [qi for qi, q in enumerate(b['rules'][:-1]) if any(e['lab'] == r['lhs'] for e in q['edges']) and q['lhs'] != r['lhs']]
        if users:
            q = copy.deepcopy(b['rules'][rng.choice(users)])
            q.pop('share', None)
            for e in q['edges']:
                if e['lab'] == r['lhs']:
                    e['lab'] = 'W'
            b['rules'].append(q)
    return b


# --------------------------------------------------------------------------
# building the real objects

def _to_float(x, kind):
    if kind == 'real':
        return math.inf if x == INF else float(x)
    if kind == 'log':
        return math.inf if x == INF else (-math.inf if x == 0 else math.log(x))
    if kind == 'mp':
        return math.inf if x == INF else (-math.inf if x == NINF else float(x))
    if kind == 'bool':
        return bool(x != 0)
    raise ValueError(kind)


def build_fgg(ag, kind='real', dtype=None, *, rule_order=None, implicit_ids=False, value_perm=None,
              finite_domains=False, patterned=None, with_interp=True, use_rule_ids=False, fresh_labels=False,
              start_last=False, defer_rules=0, offset_views=False):
    """Return (fgg, info) for the abstract grammar.  kind selects which weight table is used and
    how it is mapped to floats: real (w), log (ln w), mp (wmp, for the Viterbi semiring), bool.
    info['nodes'][ri] / info['edges'][ri] list the real Node/Edge objects of rule ri (AG order)."""
    import torch, fggs
    from fggs import FGG, HRG, Graph, Node, Edge, EdgeLabel, NodeLabel, HRGRule
    from fggs.domains import FiniteDomain, RangeDomain
    from fggs.factors import FiniteFactor
    if dtype is None:
        dtype = torch.float64
    nl = {n: NodeLabel(n) for n in ag['nls']}
    el = {n: EdgeLabel(n, [nl[x] for x in d['type']], is_terminal=d['t'], is_nonterminal=not d['t'])
          for n, d in ag['els'].items()}
    if fresh_labels:
        # README style: every mention of a label is its own (equal, not identical) object, as with
        # Graph.new_edge('X', ...) / fgg.new_rule('X', rhs); the label tables keep only one of them
        class _Fresh(dict):
            def __init__(self, make, names):
                super().__init__()
                self._make, self._names = make, set(names)
            def __getitem__(self, n):
                if n not in self._names:
                    raise KeyError(n)
                return self._make(n)
        nl0 = nl
        nl = _Fresh(lambda n: NodeLabel(n), ag['nls'])
        el = _Fresh(lambda n: EdgeLabel(n, [NodeLabel(x) for x in ag['els'][n]['type']], is_terminal=ag['els'][n]['t'],
                                        is_nonterminal=not ag['els'][n]['t']), ag['els'])
    # start_last: a HISTORY in which the start symbol is declared last -- the grammar object is created around another
    # nonterminal, every other label is registered first, and the start symbol is set when everything else is in place
    other = [n for n in ag['elorder'] if not ag['els'][n]['t'] and n != ag['start']]
    start_last = start_last and bool(other) and not fresh_labels
    first = other[-1] if start_last else ag['start']
    g = FGG(el[first]) if with_interp else HRG(el[first])
    if not fresh_labels:
        for n in ([x for x in ag['elorder'] if x != ag['start']] + [ag['start']] if start_last else ag['elorder']):
            g.add_edge_label(el[n])
    else:
        used = {e['lab'] for r in ag['rules'] for e in r['edges']} | {r['lhs'] for r in ag['rules']} | {ag['start']}
        for n in ag['elorder']:
            if n not in used:
                g.add_edge_label(el[n])
    info = {'nodes': {}, 'edges': {}, 'rules': {}, 'el': el, 'nl': nl}
    order = rule_order if rule_order is not None else list(range(len(ag['rules'])))
    # defer_rules = k: the last k rules (in `order`) are NOT added now; info['add_deferred']() adds them later, so that
    # queries can be made on the same object before and after (histories: query, add_rule, query)
    deferred = (list(defer_rules) if isinstance(defer_rules, (list, tuple)) else order[len(order) - defer_rules:]) if defer_rules else []

    def add_rule_ix(ri):
        r = ag['rules'][ri]
        if r.get('share') is not None and r['share'] in info['rules']:
            # the very same Graph object as another rule's right-hand side
            j = r['share']
            rule = HRGRule(el[r['lhs']], info['rules'][j].rhs)
            g.add_rule(rule)
            info['nodes'][ri], info['edges'][ri], info['rules'][ri] = info['nodes'][j], info['edges'][j], rule
            return
        rhs = Graph()
        nodes = []
        for j, l in enumerate(r['nodes']):
            if use_rule_ids:
                v = Node(nl[l], id=(r['nid'][j] or None))
            else:
                v = Node(nl[l]) if implicit_ids else Node(nl[l], id=f'r{ri}v{j+1}')
            nodes.append(v)
            rhs.add_node(v)
        edges = []
        for k, e in enumerate(r['edges']):
            if use_rule_ids:
                eid = r['eid'][k] or None
            else:
                eid = None if implicit_ids else f'r{ri}e{k+1}'
            ed = Edge(el[e['lab']], [nodes[a - 1] for a in e['att']], id=eid)
            edges.append(ed)
            rhs.add_edge(ed)
        rhs.ext = [nodes[a - 1] for a in r['ext']]
        rule = HRGRule(el[r['lhs']], rhs)
        g.add_rule(rule)
        info['nodes'][ri], info['edges'][ri], info['rules'][ri] = nodes, edges, rule
    for ri in order:
        if ri not in deferred:
            add_rule_ix(ri)
    info['add_deferred'] = lambda: [add_rule_ix(ri) for ri in deferred]
    if with_interp:
        for n, size in ag['nls'].items():
            if finite_domains == 'tuple':
                g.add_domain(nl[n], FiniteDomain([(n, i) for i in range(size)]))      # compound (tuple) values
            elif finite_domains:
                g.add_domain(nl[n], FiniteDomain([f'{n}{i}' for i in range(size)]))
            else:
                g.add_domain(nl[n], RangeDomain(size))
        table = ag['wmp'] if kind == 'mp' else ag['w']
        for t in ag['elorder']:
            if not ag['els'][t]['t']:
                continue
            shape = shape_of(ag, t)
            vals = [_to_float(x, kind) for x in table[t]]
            if kind == 'bool':
                ten = torch.tensor(vals, dtype=torch.bool).reshape(shape)
            else:
                ten = torch.tensor(vals, dtype=dtype).reshape(shape)
            doms = [g.domains[x] for x in ag['els'][t]['type']]
            if offset_views:
                # the weights are a VIEW into a larger parameter table at a non-zero storage offset (what table[1] gives)
                junk = torch.full_like(ten.reshape(-1), True if kind == 'bool' else 9)
                big = torch.cat([junk, junk[:1], ten.reshape(-1)])
                ten = big[junk.numel() + 1:].reshape(shape)
            if patterned and t in patterned:
                ten = patterned[t](ten)
            g.add_factor(el[t], FiniteFactor(doms, ten))
    if start_last:
        g.start = el[ag['start']]
    return g, info


def patternise(rng, a, p=0.8):
    """Rewrite weight tables so that they FIT a sparsity pattern (a constant off the diagonal, or constant
    along an axis); returns (a2, pat).  pattern_hooks(pat) then presents those same weights as PatternedTensors
    (diagonal with that constant -- zero or not -- as default; stride-0 expanded)."""
    import copy, itertools
    a2 = copy.deepcopy(a)
    pat = {}
    for t in terms_of(a2):
        sh = shape_of(a2, t)
        typ = a2['els'][t]['type']
        if rng.random() > p or not sh:
            continue
        opts = []
        for i in range(len(sh)):
            for j in range(i + 1, len(sh)):
                if typ[i] == typ[j] and sh[i] >= 2:
                    opts.append(('diag', i, j))
        for k in range(len(sh)):
            if sh[k] >= 2:
                opts.append(('expand', k))
        if len(sh) == 1 and sh[0] >= 2:
            # an "observed value": all weight on ONE value of the domain, held as a one-hot pattern without physical axes
            opts += [('onehot', rng.randrange(sh[0]))] * 2
        if not opts:
            continue
        o = rng.choice(opts)
        if o[0] == 'onehot':
            keep = o[1]
            a2['w'][t] = [a2['w'][t][i] if i == keep else 0 for i in range(sh[0])]
            a2['wmp'][t] = [a2['wmp'][t][i] if i == keep else NINF for i in range(sh[0])]
            if a2['w'][t][keep] in (0, INF):
                a2['w'][t][keep], a2['wmp'][t][keep] = 2, -1
            pat[t] = list(o)
            continue
        cw, cm = rng.choice([(0, NINF), (1, 0), (2, -1), (1, 0), (3, 1)])
        for flat, idx in enumerate(itertools.product(*[range(n) for n in sh])):
            if o[0] == 'diag':
                if idx[o[1]] != idx[o[2]]:
                    a2['w'][t][flat], a2['wmp'][t][flat] = cw, cm
            else:
                src = list(idx)
                src[o[1]] = 0
                f0 = _flat(sh, src)
                a2['w'][t][flat], a2['wmp'][t][flat] = a2['w'][t][f0], a2['wmp'][t][f0]
        pat[t] = list(o)
    return a2, pat


def pattern_hooks(pat):
    import torch
    from fggs.indices import PatternedTensor, PhysicalAxis
    hooks = {}
    for t, o in pat.items():
        if o[0] == 'onehot':
            def h(ten, i=o[1]):
                from fggs.indices import SumAxis, unitAxis
                zero = ten[(i + 1) % ten.shape[0]].item()         # the value off the hot position (the semiring zero)
                return PatternedTensor(ten[i].clone(), (), (SumAxis(i, unitAxis, ten.shape[0] - i - 1),), zero)
        elif o[0] == 'diag':
            def h(ten, i=o[1], j=o[2]):
                axes = [PhysicalAxis(n) for n in ten.shape]
                off = [0] * ten.ndim
                off[j] = 1
                default = ten[tuple(off)].item()
                phys = ten.diagonal(dim1=i, dim2=j)           # the diagonal goes LAST in torch
                paxes = [axes[k] for k in range(ten.ndim) if k not in (i, j)] + [axes[i]]
                vaxes = list(axes)
                vaxes[j] = axes[i]
                return PatternedTensor(phys.clone(), tuple(paxes), tuple(vaxes), default)
        else:
            def h(ten, k=o[1]):
                return PatternedTensor(ten.select(k, 0).clone()).unsqueeze(k).expand(*ten.shape)
        hooks[t] = h
    return hooks


def gen_passthrough(rng):
    """Non-recursive grammars whose rules pass nodes through: every node external, external order a permutation of
    the attachment order, external nodes that no edge touches (the tensor is constant -- stride 0 -- along them),
    children used with their nodes permuted.  The einsum of such a rule sums nothing out."""
    sizes = rng.choice([(2, 2), (3, 3), (2, 3), (3, 2)])
    nls = {'T': sizes[0], 'U': sizes[1]}
    ar = rng.choice([2, 3, 3])
    typX = [rng.choice('TU') for _ in range(ar)]
    permS = list(range(ar))
    rng.shuffle(permS)                       # S's i-th type = X's permS[i]-th
    typS = [typX[k] for k in permS]
    els = {'S': {'t': False, 'type': typS}, 'X': {'t': False, 'type': typX},
           'a': {'t': True, 'type': ['T']}, 'b': {'t': True, 'type': ['U']}}
    two_level = rng.random() < 0.5
    if two_level:
        els['R'] = {'t': False, 'type': []}
    rules = []
    # X -> all nodes external; unary factors on a random (possibly empty) subset
    for _ in range(rng.randint(1, 2)):
        perm = list(range(ar))
        rng.shuffle(perm)                    # node order inside the rule
        nodes = [typX[k] for k in perm]
        ext = [perm.index(k) + 1 for k in range(ar)]
        touched = [j for j in range(ar) if rng.random() < 0.3]
        edges = [{'lab': 'a' if nodes[j] == 'T' else 'b', 'att': [j + 1]} for j in touched]
        rules.append({'lhs': 'X', 'nodes': nodes, 'edges': edges, 'ext': ext})
    # S -> X with nodes permuted, all external, plus optional unary factors
    for _ in range(rng.randint(1, 2)):
        nodes = list(typS)
        att = [permS.index(k) + 1 for k in range(ar)]       # X's k-th attachment is S's node with permS[.] = k
        edges = [{'lab': 'X', 'att': att}]
        if rng.random() < 0.4:
            j = rng.randrange(ar)
            edges.append({'lab': 'a' if nodes[j] == 'T' else 'b', 'att': [j + 1]})
        rng.shuffle(edges)
        rules.append({'lhs': 'S', 'nodes': nodes, 'edges': edges, 'ext': list(range(1, ar + 1))})
    start = 'S'
    if two_level:
        start = 'R'
        nodes = list(typS)
        edges = [{'lab': 'S', 'att': list(range(1, ar + 1))}] + [{'lab': 'a' if l == 'T' else 'b', 'att': [j + 1]} for j, l in enumerate(nodes) if rng.random() < 0.5]
        rules.append({'lhs': 'R', 'nodes': nodes, 'edges': edges, 'ext': []})
    used = {e['lab'] for r in rules for e in r['edges']}
    for t in ('a', 'b'):
        if t not in used:
            del els[t]
    elorder = list(els)
    rng.shuffle(elorder)
    rng.shuffle(rules)
    w = {t: [rng.choice(PRIMES[:4]) for _ in range(nls[els[t]['type'][0]])] for t in ('a', 'b') if t in els}
    wmp = {t: [rng.randint(-3, 3) for _ in range(nls[els[t]['type'][0]])] for t in ('a', 'b') if t in els}
    return {'nls': nls, 'els': els, 'elorder': elorder, 'start': start, 'rules': rules, 'w': w, 'wmp': wmp}


def gen_sparse_rule(rng):
    """Non-recursive grammars in which the einsum of a rule yields a SPARSELY PATTERNED tensor (identity-like factors held
    as diagonal PatternedTensors, all their nodes external) that is then multiplied by the domain size of internal nodes
    attached to no edge.  Returns the grammar with its `pat` entry (see patternise / pattern_hooks)."""
    n, m = rng.choice([2, 3]), rng.choice([2, 3])
    nls = {'T': n, 'U': m}
    els = {'S': {'t': False, 'type': rng.choice([[], ['T', 'T']])}, 'X': {'t': False, 'type': ['T', 'T']},
           'eq': {'t': True, 'type': ['T', 'T']}, 'g': {'t': True, 'type': ['T']}}
    rules = []
    for _ in range(rng.randint(1, 2)):
        extra = [rng.choice('TU') for _ in range(rng.randint(1, 2))]        # edge-less internal nodes
        nodes = ['T', 'T'] + extra
        perm = list(range(len(nodes)))
        rng.shuffle(perm)
        nd = [None] * len(nodes)
        for old, new_ in enumerate(perm):
            nd[new_] = nodes[old]
        a_, b_ = perm[0] + 1, perm[1] + 1
        edges = [{'lab': 'eq', 'att': rng.choice([[a_, b_], [b_, a_]])}]
        if rng.random() < 0.3:
            edges.append({'lab': 'eq', 'att': [a_, b_]})
        rules.append({'lhs': 'X', 'nodes': nd, 'edges': edges, 'ext': rng.choice([[a_, b_], [b_, a_]])})
    if els['S']['type']:
        extra = [rng.choice('TU')] if rng.random() < 0.6 else []
        rules.append({'lhs': 'S', 'nodes': ['T', 'T'] + extra, 'edges': [{'lab': 'X', 'att': rng.choice([[1, 2], [2, 1]])}], 'ext': [1, 2]})
        if rng.random() < 0.5:
            rules.append({'lhs': 'S', 'nodes': ['T', 'T', 'U'], 'edges': [{'lab': 'eq', 'att': [1, 2]}], 'ext': [1, 2]})
    else:
        rules.append({'lhs': 'S', 'nodes': ['T', 'T'] + ([rng.choice('TU')] if rng.random() < 0.5 else []),
                      'edges': [{'lab': 'X', 'att': [1, 2]}, {'lab': 'g', 'att': [rng.choice([1, 2])]}], 'ext': []})
    used = {e['lab'] for r in rules for e in r['edges']}
    if 'g' not in used:
        del els['g']
    w = {'eq': [PRIMES[(i + 1) % 4] if i == j else 0 for i in range(n) for j in range(n)]}
    wmp = {'eq': [rng.randint(-3, 3) if i == j else NINF for i in range(n) for j in range(n)]}
    if 'g' in els:
        w['g'] = [rng.choice([1, 2, 3]) for _ in range(n)]
        wmp['g'] = [rng.randint(-2, 2) for _ in range(n)]
    rng.shuffle(rules)
    elorder = list(els)
    rng.shuffle(elorder)
    return {'nls': nls, 'els': els, 'elorder': elorder, 'start': 'S', 'rules': rules, 'w': w, 'wmp': wmp, 'pat': {'eq': ['diag', 0, 1]}}


def build_incremental(ag, on_step, with_start_first=True, detour_rng=None):
    """Build the HRG step by step through the public API, calling on_step(hrg, stage_ag) after the
    constructor, after every label registration batch and after every rule -- so that queries are
    observed on every prefix of the construction history (stale caches show up here)."""
    import fggs
    from fggs import HRG, Graph, Node, Edge, EdgeLabel, NodeLabel, HRGRule
    nl = {n: NodeLabel(n) for n in ag['nls']}
    el = {n: EdgeLabel(n, [nl[x] for x in d['type']], is_terminal=d['t'], is_nonterminal=not d['t'])
          for n, d in ag['els'].items()}
    g = HRG(el[ag['start']])
    stage = {'nls': ag['nls'], 'els': {ag['start']: ag['els'][ag['start']]}, 'elorder': [ag['start']],
             'start': ag['start'], 'rules': []}
    on_step(g, stage)
    for n in ag['elorder']:
        g.add_edge_label(el[n])
        if n not in stage['els']:
            stage = dict(stage, els=dict(stage['els'], **{n: ag['els'][n]}), elorder=stage['elorder'] + [n])
        if not ag['els'][n]['t']:
            on_step(g, stage)
    built = {}
    for ri, r in enumerate(ag['rules']):
        if r.get('share') is not None and r['share'] in built:
            g.add_rule(HRGRule(el[r['lhs']], built[r['share']]))
            stage = dict(stage, rules=stage['rules'] + [r])
            on_step(g, stage)
            continue
        rhs = Graph()
        built[ri] = rhs
        nodes = [Node(nl[l], id=f'r{ri}v{j+1}') for j, l in enumerate(r['nodes'])]
        for v in nodes:
            rhs.add_node(v)
        for k, e in enumerate(r['edges']):
            rhs.add_edge(Edge(el[e['lab']], [nodes[a - 1] for a in e['att']], id=f'r{ri}e{k+1}'))
        rhs.ext = [nodes[a - 1] for a in r['ext']]
        detour = None
        if detour_rng is not None and detour_rng.random() < 0.6:
            # a DETOUR in the history: a nonterminal edge (or just its label) that the right-hand side holds for a
            # while and loses again -- the finished grammar is the same, only label tables remember it
            cands = []
            for n, d in ag['els'].items():
                if d['t']:
                    continue
                att, ok = [], True
                for l in d['type']:
                    c = [v for v in nodes if v.label.name == l]
                    if not c:
                        ok = False
                        break
                    att.append(detour_rng.choice(c))
                if ok:
                    cands.append((n, att))
            if cands:
                n, att = detour_rng.choice(cands)
                kind = detour_rng.choice(['edge_before', 'edge_after', 'label'])
                if kind == 'label':
                    rhs.add_edge_label(el[n])
                else:
                    detour = Edge(el[n], att, id=f'r{ri}detour')
                    rhs.add_edge(detour)
                    if kind == 'edge_before':
                        rhs.remove_edge(detour)
                        detour = None
        g.add_rule(HRGRule(el[r['lhs']], rhs))
        if detour is not None:
            rhs.remove_edge(detour)         # the rule shares its right-hand side: removed after add_rule
        stage = dict(stage, rules=stage['rules'] + [r])
        on_step(g, stage)
    return g


def semiring_for(kind, dtype=None):
    import torch
    from fggs.semirings import RealSemiring, LogSemiring, ViterbiSemiring, BoolSemiring
    if dtype is None:
        dtype = torch.float64
    return {'real': lambda: RealSemiring(dtype=dtype), 'log': lambda: LogSemiring(dtype=dtype),
            'mp': lambda: ViterbiSemiring(dtype=dtype), 'bool': lambda: BoolSemiring()}[kind]()


def project_value(x, kind, dtype=None):
    """Observed float -> interval [lo, hi] of carrier values it is compatible with."""
    import torch
    from .common import snap_int, NAN, NONINT
    if kind == 'bool':
        v = 1 if x else 0
        return [v, v]
    x = float(x)
    if kind in ('real', 'mp'):
        v = snap_int(x)
        return [v, v]
    # log: naturals n with |x - ln n| <= tol
    if math.isnan(x):
        return [NAN, NAN]
    if x == math.inf:
        return [INF, INF]
    if x == -math.inf:
        return [0, 0]
    tol = (1e-4 if dtype == torch.float32 else 1e-9) * max(1.0, abs(x))
    if x + tol > 13.7:     # exp > 890000: outside the carrier
        return [NONINT, NONINT]
    lo = math.ceil(math.exp(x - tol))
    hi = math.floor(math.exp(x + tol))
    if lo > hi:
        return [NONINT, NONINT]
    return [int(lo), int(hi)]


def project_tensor(t, kind, dtype=None):
    """Observed dense tensor -> flat row-major list of intervals on the exact carrier."""
    return [project_value(x, kind, dtype) for x in t.reshape(-1).tolist()]


# --------------------------------------------------------------------------
# recursive grammars on the dyadic grid, by REVERSE CONSTRUCTION (generation aid: the candidate
# least fixed point `cert` is only a hint -- spec/Semantics.tla (CertExact, CertQ) proves it)
FXS = 1024


def _assts(ag, r, ea):
    import itertools
    doms = [range(ag['nls'][l]) for l in r['nodes']]
    for a in itertools.product(*doms):
        if all(a[r['ext'][k] - 1] == ea[k] for k in range(len(r['ext']))):
            yield a


def _flat(shape, idx):
    f = 0
    for s, x in zip(shape, idx):
        f = f * s + x
    return f


def rule_val_frac(ag, x, r, ea, hole=None):
    """sum over assignments of the product of the edges (Fractions); edge `hole` replaced by 1"""
    from fractions import Fraction
    tot = Fraction(0)
    for a in _assts(ag, r, ea):
        p = Fraction(1)
        for k, e in enumerate(r['edges']):
            if k == hole:
                continue
            idx = [a[j - 1] for j in e['att']]
            if ag['els'][e['lab']]['t']:
                p *= Fraction(ag['wfx'][e['lab']][_flat(shape_of(ag, e['lab']), idx)], FXS)
            else:
                p *= x[e['lab']][_flat(shape_of(ag, e['lab']), idx)]
        tot += p
    return tot


def gen_fx_recursive(rng, linear=False, max_q=None, dead=False, scalar_start=False, patterned=False, mutual=False):
    """A recursive grammar with quarter-valued weights whose least fixed point is `cert` by
    construction (each nonterminal gets a constant rule that makes cert a fixed point)."""
    from fractions import Fraction
    import itertools
    for _ in range(3000):
        nls = {'T': 2 if patterned == 'tri' else rng.choice([1, 2, 2])}
        nnt = 2 if mutual else rng.choice([1, 2, 2])
        ntn = ['S', 'X'][:nnt]
        els = {}
        for i, n in enumerate(ntn):
            els[n] = {'t': False, 'type': ['T'] * ((0 if scalar_start else rng.choice([0, 0, 1])) if i == 0 else rng.choice([0, 1]))}
        if dead:
            # an unproductive nonterminal D (every rule of D needs D again): value 0; rules that use it are dead
            els['D'] = {'t': False, 'type': []}
        els['a'] = {'t': True, 'type': ['T']}
        els['b'] = {'t': True, 'type': []}
        wfx = {'a': [rng.choice([256, 512, 512, 768]) for _ in range(nls['T'])], 'b': [rng.choice([256, 512])]}
        rules = []
        for X in ntn:
            typ = els[X]['type']
            for _r in range(rng.choice([1, 1, 2])):
                nodes = list(typ) + ['T'] * rng.choice([0, 1])
                ext = list(range(1, len(typ) + 1))
                edges = []
                nrec = rng.choice([1]) if linear else rng.choice([1, 2, 2])
                for _k in range(nrec):
                    Y = rng.choice(ntn)
                    att = []
                    ok = True
                    for _l in els[Y]['type']:
                        if not nodes:
                            ok = False
                            break
                        att.append(rng.randrange(len(nodes)) + 1)
                    if ok:
                        edges.append({'lab': Y, 'att': att})
                if rng.random() < 0.7:
                    edges.append({'lab': 'b', 'att': []})
                if nodes and rng.random() < 0.7:
                    edges.append({'lab': 'a', 'att': [rng.randrange(len(nodes)) + 1]})
                rng.shuffle(edges)
                if sum(1 for e in edges if not els[e['lab']]['t']) >= 2 and rng.random() < 0.6:
                    # a factor that ONLY this non-linear rule mentions, written after its recursive edges
                    un = f'u{len(rules)}'
                    if nodes and rng.random() < 0.5:
                        els[un] = {'t': True, 'type': ['T']}
                        wfx[un] = [rng.choice([256, 512, 768]) for _ in range(nls['T'])]
                        edges.append({'lab': un, 'att': [rng.randrange(len(nodes)) + 1]})
                    else:
                        els[un] = {'t': True, 'type': []}
                        wfx[un] = [rng.choice([256, 512, 768])]
                        edges.append({'lab': un, 'att': []})
                rules.append({'lhs': X, 'nodes': nodes, 'edges': edges, 'ext': ext})
        if mutual:
            # S and X depend on each other AND X (or S) on itself: a component of two nonterminals whose block system
            # has a diagonal (pivot) block -- what an elimination-based solver has to close before it goes on
            els['mu'] = {'t': True, 'type': []}
            wfx['mu'] = [rng.choice([64, 128])]          # a small scalar keeps the contraction bound reachable

            def call(lhs, callee):
                typ = els[lhs]['type']
                nodes = list(typ) + ['T'] * len(els[callee]['type'])
                att = list(range(len(typ) + 1, len(nodes) + 1))
                return {'lhs': lhs, 'nodes': nodes, 'edges': [{'lab': callee, 'att': att}, {'lab': 'mu', 'att': []}], 'ext': list(range(1, len(typ) + 1))}
            rules += [call('S', 'X'), call('X', 'S'), call(rng.choice(['X', 'X', 'S']), None) if False else call('X', 'X')]
            if rng.random() < 0.5:
                rules.append(call('S', 'S'))
        if patterned:
            # a binary nonterminal P whose base rule is an IDENTITY factor (built as a diagonal
            # PatternedTensor): its iterates change sparsity pattern ("tri"), or its sum-product stays a
            # diagonal pattern for ever ("diag")
            pvariant = 'tri' if patterned == 'tri' else rng.choice(['tri', 'diag'])
            els['P'] = {'t': False, 'type': ['T', 'T']}
            els['eq'] = {'t': True, 'type': ['T', 'T']}
            n = nls['T']
            wfx['eq'] = [FXS if i == j else 0 for i in range(n) for j in range(n)]
            nS = len(els['S']['type'])
            if pvariant == 'tri':
                els['m'] = {'t': True, 'type': ['T', 'T']}
                # upper triangular, diagonal entries 0 or 1/2: (I - M)^-1 is dyadic, convergence is geometric
                wfx['m'] = [(rng.choice([256, 256, 512]) if j > i else (rng.choice([0, 512]) if j == i else 0)) for i in range(n) for j in range(n)]
                rules.append({'lhs': 'P', 'nodes': ['T', 'T'], 'edges': [{'lab': 'eq', 'att': [1, 2]}, {'lab': 'b', 'att': []}], 'ext': [1, 2]})
                rules.append({'lhs': 'P', 'nodes': ['T', 'T', 'T'], 'edges': [{'lab': 'P', 'att': [1, 3]}, {'lab': 'm', 'att': [3, 2]}], 'ext': [1, 2]})
            else:
                els['v'] = {'t': True, 'type': ['T']}
                wfx['v'] = [rng.choice([0, 512, 512]) for _ in range(n)]
                rules.append({'lhs': 'P', 'nodes': ['T', 'T'], 'edges': [{'lab': 'eq', 'att': [1, 2]}, {'lab': 'a', 'att': [1]}], 'ext': [1, 2]})
                rules.append({'lhs': 'P', 'nodes': ['T', 'T', 'T'], 'edges': [{'lab': 'P', 'att': [1, 3]}, {'lab': 'eq', 'att': [3, 2]}, {'lab': 'v', 'att': [2]}], 'ext': [1, 2]})
            rules.append({'lhs': 'S', 'nodes': list(els['S']['type']) + ['T', 'T'],
                          'edges': [{'lab': 'P', 'att': [nS + 1, nS + 2]}, {'lab': 'a', 'att': [nS + 1]}, {'lab': 'b', 'att': []}],
                          'ext': list(range(1, nS + 1))})
            ntn = ntn + ['P']
        if dead:
            rules.append({'lhs': 'D', 'nodes': [], 'edges': [{'lab': 'S' if els['S']['type'] == [] else 'D', 'att': []}, {'lab': 'D', 'att': []}], 'ext': []})
            for X in ntn:          # a dead rule for some live nonterminals, placed FIRST among its rules
                if rng.random() < 0.8:
                    typ = els[X]['type']
                    dr = {'lhs': X, 'nodes': list(typ), 'edges': [{'lab': 'D', 'att': []}, {'lab': 'b', 'att': []}], 'ext': list(range(1, len(typ) + 1))}
                    rules.insert(0, dr)
        ag = {'nls': nls, 'els': els, 'elorder': list(els), 'start': 'S', 'rules': rules, 'wfx': wfx}
        # target fixed point on the quarter grid
        x = {X: [Fraction(rng.choice([1, 2, 2, 3] if (dead or patterned) else [1, 2, 2, 3, 4, 6]), 4) for _ in range(numel(shape_of(ag, X)))] for X in ntn}
        if dead:
            x['D'] = [Fraction(0)]
        if patterned:
            n = nls['T']
            if pvariant == 'tri':
                # P = b (I - M)^-1, by exact Gauss-Jordan on Fractions
                M = [[Fraction(wfx['m'][i * n + j], FXS) for j in range(n)] for i in range(n)]
                A = [[(Fraction(int(i == j)) - M[i][j]) for j in range(n)] + [Fraction(int(i == k)) for k in range(n)] for i in range(n)]
                for c_ in range(n):
                    piv = A[c_][c_]
                    A[c_] = [v_ / piv for v_ in A[c_]]
                    for r_ in range(n):
                        if r_ != c_ and A[r_][c_] != 0:
                            A[r_] = [vr - A[r_][c_] * vc for vr, vc in zip(A[r_], A[c_])]
                inv = [row[n:] for row in A]
                bw = Fraction(wfx['b'][0], FXS)
                x['P'] = [bw * inv[i][j] for i in range(n) for j in range(n)]
            else:
                x['P'] = [(Fraction(wfx['a'][i], FXS) / (1 - Fraction(wfx['v'][i], FXS))) if i == j else Fraction(0) for i in range(n) for j in range(n)]
            if any((v_ * FXS).denominator != 1 for v_ in x['P']):
                continue
        cert, ok = {}, True
        if dead:
            cert['D'] = [0]
        for X in ntn:
            sh = shape_of(ag, X)
            cname = 'c' + X
            els[cname] = {'t': True, 'type': list(els[X]['type'])}
            cw = []
            for flat, ea in enumerate(itertools.product(*[range(s) for s in sh])):
                rest = sum((rule_val_frac(ag, x, r, ea) for r in rules if r['lhs'] == X), Fraction(0))
                c = x[X][flat] - rest
                if c < 0 or (c * FXS).denominator != 1:
                    ok = False
                    break
                cw.append(int(c * FXS))
            if not ok:
                break
            if all(v == 0 for v in cw):
                del els[cname]          # no constant rule needed (keeps the sparsity pattern of X's iterates)
                cert[X] = [int(v * FXS) for v in x[X]]
                continue
            wfx[cname] = cw
            nodes = list(els[X]['type'])
            rules.append({'lhs': X, 'nodes': nodes, 'edges': [{'lab': cname, 'att': list(range(1, len(nodes) + 1))}], 'ext': list(range(1, len(nodes) + 1))})
            cert[X] = [int(v * FXS) for v in x[X]]
        if not ok:
            continue
        ag['elorder'] = list(els)
        # contraction: largest Jacobian row sum at x
        q = Fraction(0)
        for X in (ntn + ['D'] if dead else ntn):
            for ea in itertools.product(*[range(s) for s in shape_of(ag, X)]):
                row = Fraction(0)
                for r in rules:
                    if r['lhs'] != X:
                        continue
                    for k, e in enumerate(r['edges']):
                        if not els[e['lab']]['t']:
                            row += rule_val_frac(ag, x, r, ea, hole=k)
                q = max(q, row)
        if max_q is not None and q >= max_q:
            continue
        ag['cert'] = cert
        ag['q_hint'] = float(q)
        ag['w'] = {t: [0] * len(v) for t, v in wfx.items()}
        ag['wmp'] = {t: [0] * len(v) for t, v in wfx.items()}
        if not dead:
            rng.shuffle(ag['rules'])
        ag['patterned_eq'] = bool(patterned)
        return ag
    raise RuntimeError('gen_fx_recursive: no instance found')


def with_constant_marker(ag):
    """For a grammar in which EVERY rule has at most one nonterminal edge (the equations are x = A x + b globally), the
    grammar with a nullary terminal `lam` added to every rule WITHOUT a nonterminal edge: its sum-product is exactly
    weight(lam) times the original one (homogeneity of linear systems).  With weight(lam) = exp(-s) the Log-semiring
    values are the original ones shifted by -s: the same iteration at another magnitude.  None if not applicable."""
    import copy
    if 'lam' in ag['els'] or any(sum(1 for e in r['edges'] if not ag['els'][e['lab']]['t']) > 1 for r in ag['rules']):
        return None
    b = copy.deepcopy(ag)
    b['els']['lam'] = {'t': True, 'type': []}
    b['elorder'] = b['elorder'] + ['lam']
    b['wfx']['lam'] = [FXS]
    for r in b['rules']:
        if not any(not b['els'][e['lab']]['t'] for e in r['edges']):
            r['edges'].append({'lab': 'lam', 'att': []})
    return b


def permute_presentation(rng, ag):
    """The same grammar written down differently: rules in another order, the edges of every rule in another order, the
    nodes of every rule numbered differently (attachments and external nodes renumbered with them), labels registered
    in another order.  Nothing a nonterminal's tensor depends on changes."""
    import copy
    b = copy.deepcopy(ag)
    for r in b['rules']:
        n = len(r['nodes'])
        perm = list(range(n))
        rng.shuffle(perm)                      # old position i -> new position perm[i]
        nodes = [None] * n
        for old, new in enumerate(perm):
            nodes[new] = r['nodes'][old]
        r['nodes'] = nodes
        for e in r['edges']:
            e['att'] = [perm[x - 1] + 1 for x in e['att']]
        r['ext'] = [perm[x - 1] + 1 for x in r['ext']]
        rng.shuffle(r['edges'])
        r.pop('share', None)
    rng.shuffle(b['rules'])
    eo = list(b['elorder'])
    rng.shuffle(eo)
    b['elorder'] = eo
    return b


def build_fgg_fx_shifted(am, dtype, shift):
    """Log-semiring FGG of a grammar returned by with_constant_marker, the marker weighing exp(-shift)"""
    import torch
    g = build_fgg_fx(am, 'log', dtype)[0]
    g.factors['lam'].weights = torch.tensor(-float(shift), dtype=dtype)
    return g


def build_fgg_fx(ag, kind, dtype, **build_opts):
    """real FGG for a grid grammar: weights wfx/1024 (real) or their logarithms (log)"""
    import torch
    a2 = dict(ag)
    g, info = build_fgg(dict(ag, w={t: [0] * len(v) for t, v in ag['wfx'].items()}), 'real', dtype, **build_opts)
    for t, vals in ag['wfx'].items():
        fl = [v / FXS for v in vals]
        if kind == 'log':
            fl = [math.log(v) if v > 0 else -math.inf for v in fl]
        if t == 'eq' and ag.get('patterned_eq'):
            # the identity factor as a diagonal pattern (k) -> (k, k), default = semiring zero
            from fggs.indices import PatternedTensor, PhysicalAxis
            n = ag['nls']['T']
            one, zero = (1.0, 0.0) if kind == 'real' else (0.0, -math.inf)
            if n == 1:
                g.factors[t].weights = torch.tensor([[one]], dtype=dtype)
            else:
                k = PhysicalAxis(n)
                g.factors[t].weights = PatternedTensor(torch.full((n,), one, dtype=dtype), (k,), (k, k), zero)
            continue
        g.factors[t].weights = torch.tensor(fl, dtype=dtype).reshape(shape_of(ag, t))
    return g, info
