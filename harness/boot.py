"""Entry point: any failure of the machinery itself (including import errors) is exit 2,
never 1 -- exit 1 is reserved for a VIOLATION verdict."""
import sys, traceback
try:
    from harness.check import main
    rc = main()
except SystemExit as e:
    rc = e.code if isinstance(e.code, int) else 2
    if rc == 1:
        rc = 2
except BaseException:
    traceback.print_exc()
    print('MACHINERY-FAILURE: harness crashed', file=sys.stderr)
    rc = 2
sys.exit(rc)
