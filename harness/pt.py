"""Patterned tensors for the drivers: typed random pattern generation, construction of the real
fggs.indices.PatternedTensor from an Axes.tla structure, read-back of the structure of a real
object (physical axes named by object identity), and the float encoding shared with the judges.

Encoding of floats (spec/Trace_Tensor.tla): enc(v) = round(1000 v) for |v| < 2e5; sentinels for
+inf / -inf / nan / finite-but-large.  Two encoded values are `close` if equal or within
1 + 1e-5 relative."""
from __future__ import annotations
import math
from typing import Any, Dict, List

E_PINF, E_MINF, E_NAN, E_BIGP, E_BIGN = 2000000001, -2000000001, 2000000002, 2000000003, -2000000003


def enc(v) -> int:
    if isinstance(v, bool):
        return 1000 if v else 0
    v = float(v)
    if math.isnan(v):
        return E_NAN
    if v == math.inf:
        return E_PINF
    if v == -math.inf:
        return E_MINF
    if abs(v) >= 2e5:
        return E_BIGP if v > 0 else E_BIGN
    return int(round(v * 1000))


def enc_tensor(t) -> List[int]:
    return [enc(x) for x in t.reshape(-1).tolist()]


def dec(e):
    return {E_PINF: math.inf, E_MINF: -math.inf, E_NAN: math.nan}.get(e, e / 1000.0)


# ---------------------------------------------------------------- index types
def numel_type(ty):
    if ty[0] == 'n':
        return ty[1]
    if ty[0] == 'x':
        n = 1
        for f in ty[1]:
            n *= numel_type(f)
        return n
    if ty[0] == 'u':
        return sum(numel_type(f) for f in ty[1])
    return ty[1] + numel_type(ty[2]) + ty[3]


def gen_type(rng, cap=6, depth=2):
    """random index type with numel <= cap"""
    r = rng.random()
    if depth == 0 or r < 0.45:
        return ('n', rng.choice([1, 2, 2, 3, 3, 4, 0][:6] if cap >= 4 else [1, 2, 2, 3]))
    if r < 0.75:
        fs = []
        rem = cap
        for _ in range(rng.randint(2, 3)):
            f = gen_type(rng, max(1, min(3, rem)), depth - 1)
            if numel_type(f) == 0 or numel_type(f) > rem:
                f = ('n', 1)
            fs.append(f)
            rem = max(1, rem // max(1, numel_type(f)))
        return ('x', fs)
    if r < 0.88 or cap < 2:
        b, a = rng.randint(0, 2), rng.randint(0, 2)
        t = gen_type(rng, max(1, cap - b - a), depth - 1)
        return ('s', b, t, a)
    # a DISJOINT UNION of index types: a pattern may back any one summand (an injection), so two tensors over
    # the same index type can have disjoint supports (the library's SumAxis with different before / after)
    fs, rem = [], cap
    for _ in range(rng.randint(2, 3)):
        f = gen_type(rng, max(1, min(3, rem - 1)), depth - 1)
        if numel_type(f) == 0 or numel_type(f) > rem:
            f = ('n', 1)
        fs.append(f)
        rem = max(1, rem - numel_type(f))
    return ('u', fs)


class Pool:
    """physical axes available to a tensor, keyed by the index type they stand for"""
    def __init__(self, rng, share=0.35, start_id=1):
        self.rng, self.share, self.next = rng, share, start_id
        self.by_type: Dict[Any, List[dict]] = {}

    def axis(self, ty, fresh_only=False):
        key = repr(ty)
        have = self.by_type.setdefault(key, [])
        if have and not fresh_only and self.rng.random() < self.share:
            return self.rng.choice(have)
        a = {'k': 'P', 'id': self.next, 'n': numel_type(ty)}
        self.next += 1
        have.append(a)
        return a


def gen_axis(rng, ty, pool: Pool, p_whole=0.4):
    """a random axis term of index type ty"""
    n = numel_type(ty)
    if ty[0] == 'n':
        if n == 1:
            return {'k': 'X', 'fs': []} if rng.random() < 0.8 else pool.axis(ty)
        return pool.axis(ty)
    if rng.random() < p_whole and n != 1:
        return pool.axis(ty)
    if ty[0] == 'x':
        return {'k': 'X', 'fs': [gen_axis(rng, f, pool, p_whole) for f in ty[1]]}
    if ty[0] == 'u':
        i = rng.randrange(len(ty[1]))
        before = sum(numel_type(f) for f in ty[1][:i])
        after = sum(numel_type(f) for f in ty[1][i + 1:])
        return {'k': 'S', 'b': before, 't': gen_axis(rng, ty[1][i], pool, p_whole), 'a': after}
    return {'k': 'S', 'b': ty[1], 't': gen_axis(rng, ty[2], pool, p_whole), 'a': ty[3]}


def free_axes(e, acc=None):
    acc = acc if acc is not None else {}
    if e['k'] == 'P':
        acc[e['id']] = e['n']
    elif e['k'] == 'X':
        for f in e['fs']:
            free_axes(f, acc)
    else:
        free_axes(e['t'], acc)
    return acc


VALUE_SCHEMES = ('distinct', 'distinct', 'small', 'special')


def gen_pattern(rng, types, *, default=0.0, scheme='distinct', start_id=1, share=0.35, dtype='float', pool=None, p_whole=0.4):
    """a random well-typed pattern structure over the typed shape `types` (values not encoded); with `pool`, the
    physical axes are drawn from (and added to) that typed pool, so that several tensors can SHARE physical axes"""
    pool = pool if pool is not None else Pool(rng, share, start_id)
    vs = [gen_axis(rng, ty, pool, p_whole) for ty in types]
    fa = {}
    for e in vs:
        free_axes(e, fa)
    ids = list(fa)
    rng.shuffle(ids)
    ps = [{'id': i, 'n': fa[i]} for i in ids]
    n = 1
    for p in ps:
        n *= p['n']
    if dtype == 'bool':
        ph = [rng.random() < 0.5 for _ in range(n)]
    elif scheme == 'distinct':
        base = rng.choice([1, 2, 10])
        ph = [float(base + i) for i in range(n)]
        rng.shuffle(ph)
    elif scheme == 'small':
        ph = [float(rng.choice([0, 1, 2, 3, -1])) for _ in range(n)]
    else:
        ph = [rng.choice([0.0, 1.0, 2.0, math.inf, -math.inf, -3.0, 0.5]) for _ in range(n)]
    return {'ps': ps, 'vs': vs, 'd': default, 'ph': ph, 'next_id': pool.next}


# ------------------------------------------------------------- real objects
def build(struct, dtype=None, layout='contig', axes=None):
    """real PatternedTensor for a structure (values are python floats/bools in struct['ph']); `axes` (id -> PhysicalAxis)
    is shared between calls when several tensors are to use the SAME PhysicalAxis objects"""
    import torch
    from fggs.indices import PatternedTensor, PhysicalAxis, SumAxis, productAxis, ProductAxis, unitAxis
    if dtype is None:
        dtype = torch.float64
    if axes is None:
        axes = {}
    ax = {p['id']: axes.setdefault(p['id'], PhysicalAxis(p['n'])) for p in struct['ps']}

    def term(e):
        if e['k'] == 'P':
            return ax[e['id']]
        if e['k'] == 'X':
            return productAxis(term(f) for f in e['fs']) if e['fs'] else unitAxis
        return SumAxis(e['b'], term(e['t']), e['a'])
    shape = [p['n'] for p in struct['ps']]
    t = torch.tensor(struct['ph'], dtype=dtype).reshape(shape)
    if layout == 'transposed' and len(shape) >= 2:
        perm = list(reversed(range(len(shape))))
        t = t.permute(perm).contiguous().permute(perm)      # same values, non-contiguous strides
    return PatternedTensor(t, tuple(ax[p['id']] for p in struct['ps']), tuple(term(e) for e in struct['vs']), struct['d'])


def readback(pt, ids=None):
    """structure of a real PatternedTensor (encoded values), physical axes named by identity"""
    from fggs.indices import PhysicalAxis, ProductAxis, SumAxis
    ids = ids if ids is not None else {}

    def name(k):
        if id(k) not in ids:
            ids[id(k)] = len(ids) + 1
            ids.setdefault('_keep', []).append(k)
        return ids[id(k)]

    def term(e):
        if isinstance(e, PhysicalAxis):
            return {'k': 'P', 'id': name(e), 'n': e._numel}
        if isinstance(e, ProductAxis):
            return {'k': 'X', 'fs': [term(f) for f in e.factors]}
        if isinstance(e, SumAxis):
            return {'k': 'S', 'b': e.before, 't': term(e.term), 'a': e.after}
        raise TypeError(type(e))
    return {'ps': [{'id': name(k), 'n': k._numel} for k in pt.paxes], 'vs': [term(e) for e in pt.vaxes],
            'd': enc(pt.default), 'ph': enc_tensor(pt.physical),
            'pshape': [int(x) for x in pt.physical.shape]}


def encode_struct(struct):
    return {'ps': struct['ps'], 'vs': struct['vs'], 'd': enc(struct['d']), 'ph': [enc(x) for x in struct['ph']]}


def vshape(struct):
    def numel(e):
        if e['k'] == 'P':
            return e['n']
        if e['k'] == 'X':
            n = 1
            for f in e['fs']:
                n *= numel(f)
            return n
        return e['b'] + numel(e['t']) + e['a']
    return [numel(e) for e in struct['vs']]


# ------------------------------------------------- python-side evaluation (GENERATION aid only)
def _numel(e):
    if e['k'] == 'P':
        return e['n']
    if e['k'] == 'X':
        n = 1
        for f in e['fs']:
            n *= _numel(f)
        return n
    return e['b'] + _numel(e['t']) + e['a']


def _idx(e, env):
    if e['k'] == 'P':
        return env[e['id']]
    if e['k'] == 'X':
        acc = 0
        for f in e['fs']:
            acc = acc * _numel(f) + _idx(f, env)
        return acc
    return e['b'] + _idx(e['t'], env)


def support_map(struct):
    """{virtual index tuple: physical flat position} -- used to GENERATE related patterns; the
    judge recomputes denotations in TLA+ (Axes!PtDense)."""
    import itertools
    sizes = [p['n'] for p in struct['ps']]
    ids = [p['id'] for p in struct['ps']]
    out = {}
    for flat, q in enumerate(itertools.product(*[range(n) for n in sizes])):
        env = dict(zip(ids, q))
        out[tuple(_idx(e, env) for e in struct['vs'])] = flat
    return out


def repattern(rng, struct_a, types, start_id=700):
    """a different random pattern over the same typed shape whose backed cells carry struct_a's
    values (same default): denotes the same tensor iff struct_a is default outside the new support"""
    import itertools
    b = gen_pattern(rng, types, default=struct_a['d'], start_id=start_id)
    sa = support_map(struct_a)
    sb = support_map(b)
    ph = [struct_a['d']] * len(b['ph'])
    for v, flat in sb.items():
        ph[flat] = struct_a['ph'][sa[v]] if v in sa else struct_a['d']
    b['ph'] = ph
    return b
